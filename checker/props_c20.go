package main

import (
	"fmt"
	"go/token"
	"go/types"
	"sort"
	"strings"

	"golang.org/x/tools/go/ssa"
)

func init() {
	register("C20", runC20,
		"Decides structural necessary conditions of 'status controllers and operator converge to the true aggregate': the PodGroup status is recomputed field by field on every path (a function of the pods and current preemptibility, not of the old status) and patched only when the whole status differs; the queue totals are reset before summing and each total sums the same-named field of children and pod groups selected by their spec; pods are counted by phase and scheduled condition as stated; the operator's desired objects do not depend on map iteration order.",
		"the sum identities over arbitrary queue trees and histories; content of the informer caches")
}

const pkgPGPatcher = "pkg/podgroupcontroller/controllers/patcher"
const pkgQueueRes = "pkg/queuecontroller/controllers/resource_updater"

func runC20(c *Ctx) {
	runC20BothSums(c)
	runC20DeployAllSteps(c)
	runC20QueueGauges(c)
	runC20InactivePodsCannotFail(c)
	runC20DesiredOnLive(c)
	runC20ErrDrop(c)
	runC20Inherit(c)
	runC20Preemptibility(c)
	p, fx := c.P, c.Fx
	// ---- O1: the recomputed status fields are assigned on every path
	if gs := c.Anchor("O1", pkgPGPatcher, "", "getStatusWithMetadata"); gs != nil {
		for _, fld := range []string{"Requested", "Allocated", "AllocatedNonPreemptible"} {
			isStore := func(in ssa.Instruction) bool {
				st, ok := in.(*ssa.Store)
				if !ok {
					return false
				}
				t := termOf(st.Addr)
				return t.Op == "field" && t.Name == fld && t.Args[0].lastField() == "ResourcesStatus"
			}
			n := len(instrsIn(gs, isStore))
			_, path, found := reachAvoiding([]cfgPos{entryPos(gs)}, isReturn, isStore, nil)
			c.Check(n > 0 && !found, "O1", "MUSTDEF", funcKey(gs)+": ResourcesStatus."+fld+" assigned on every path", gs.Pos(), "recomputed regardless of the old status", "ResourcesStatus."+fld+" keeps the value of the old status on some path ("+pathStr(path)+"): after the pod group's preemptibility (or pods) change, the reported value never returns to the true aggregate")
		}
	}
	// ---- O3: patch only when the WHOLE status differs
	if should := c.Anchor("O3", pkgPGPatcher, "", "ShouldUpdatePodGroupStatus"); should != nil {
		getS := p.Func(pkgPGPatcher, "", "getStatusWithMetadata")
		ok := false
		for _, in := range instrsIn(should, func(in ssa.Instruction) bool {
			cc, isC := in.(ssa.CallInstruction)
			return isC && calleeOf(cc) != nil && calleeOf(cc).Name() == "DeepEqual"
		}) {
			args := in.(ssa.CallInstruction).Common().Args
			a, b := termOf(args[len(args)-2]), termOf(args[len(args)-1])
			isStatus := func(t *Term) bool { return t.lastField() == "Status" && rootParam(t) == 0 }
			isNew := func(t *Term) bool {
				return t.contains(func(x *Term) bool { return x.isCallTo(getS) }) && t.lastField() == ""
			}
			if (isStatus(a) && isNew(b)) || (isStatus(b) && isNew(a)) {
				ok = true
			}
		}
		c.Check(ok, "O3", "DOM", funcKey(should)+": compares the whole stored status with the whole recomputed status", should.Pos(), "DeepEqual(&podGroup.Status, recomputed)", "the 'is a status patch needed' test does not compare the entire status: a change confined to a field it ignores (e.g. AllocatedNonPreemptible after a preemptibility flip) is never written")
	}
	if upd := c.Anchor("O3", "pkg/podgroupcontroller/controllers", "PodGroupReconciler", "updateStatusIfNecessary"); upd != nil {
		// every way out that does not write the status has established "no update needed"
		isUpd := func(in ssa.Instruction) bool {
			cc, ok := in.(ssa.CallInstruction)
			return ok && calleeOf(cc) != nil && calleeOf(cc).Name() == "UpdatePodGroupStatus"
		}
		c.Floor("O3", "MPT status write call sites", len(instrsIn(upd, isUpd)), 1)
		_, path, found := reachAvoiding([]cfgPos{entryPos(upd)}, isReturn, isUpd, func(from, to *ssa.BasicBlock) bool {
			return !fx.edgeEstablishes(from, to, func(f Fact) bool { return !f.Pol && isCallNamed(f.T, "ShouldUpdatePodGroupStatus") })
		})
		c.Check(!found, "O3", "MPT", funcKey(upd)+": the status is written unless ShouldUpdatePodGroupStatus said it is unchanged", upd.Pos(), "all other exits pass UpdatePodGroupStatus", "the reconcile can finish without writing a status that differs ("+pathStr(path)+")")
	}
	if hp := c.Anchor("O3", "pkg/podgroupcontroller/controllers", "PodGroupReconciler", "handlePodGroupStatus"); hp != nil {
		// the metadata written is the one computed from this pod group's own pod list
		getPods := p.Func("pkg/podgroupcontroller/controllers/cluster_relations", "", "GetAllPodsOfPodGroup")
		calc := p.Func("pkg/podgroupcontroller/controllers", "PodGroupReconciler", "calculatePodGroupMetadata")
		upd := p.Func("pkg/podgroupcontroller/controllers", "PodGroupReconciler", "updateStatusIfNecessary")
		n := 0
		for _, in := range instrsIn(hp, isCallToFn(upd)) {
			n++
			args := in.(ssa.CallInstruction).Common().Args
			md := termOf(args[len(args)-1])
			pg := termOf(args[len(args)-2])
			ok := pg.Op == "param" && md.contains(func(x *Term) bool {
				return x.isCallTo(calc) && len(x.Args) >= 4 && sameTerm(x.Args[2], pg) && x.Args[3].contains(func(y *Term) bool { return y.isCallTo(getPods) && len(y.Args) >= 2 && sameTerm(y.Args[1], pg) })
			})
			c.Check(ok, "O3", "PROV", funcKey(hp)+": status written from the metadata of this pod group's own pods", instrPos(in), trunc(md.String(), 160), "the metadata handed to the status writer is not calculatePodGroupMetadata(podGroup, GetAllPodsOfPodGroup(podGroup)): "+trunc(md.String(), 200))
		}
		c.Floor("O3", "PROV status write hand-offs", n, 1)
	}
	// ---- O9: the queue reconcile snapshots before recomputing and always writes the result
	if rec := c.Anchor("O9", "pkg/queuecontroller/controllers", "QueueReconciler", "Reconcile"); rec != nil {
		isUQ := func(pkg string) func(ssa.Instruction) bool {
			return func(in ssa.Instruction) bool {
				cc, ok := in.(ssa.CallInstruction)
				return ok && calleeOf(cc) != nil && calleeOf(cc).Name() == "UpdateQueue" && strings.HasSuffix(funcPkgPath(calleeOf(cc)), pkg)
			}
		}
		isCopy := func(in ssa.Instruction) bool {
			cc, ok := in.(ssa.CallInstruction)
			return ok && calleeOf(cc) != nil && calleeOf(cc).Name() == "DeepCopy"
		}
		isPatch := isInvokeNamed("Patch")
		patches := instrsIn(rec, isPatch)
		c.Floor("O9", "MPT status patch call sites", len(patches), 1)
		for _, nm := range []string{"resource_updater", "childqueues_updater"} {
			calls := instrsIn(rec, isUQ(nm))
			c.Floor("O9", "MPT "+nm+".UpdateQueue call sites", len(calls), 1)
			for _, in := range calls {
				pre, _ := p.precededBy(in, isCopy, 0, map[*ssa.Function]bool{})
				c.Check(pre, "O9", "MPT", funcKey(rec)+": the original is copied before "+nm+".UpdateQueue recomputes the status", instrPos(in), "DeepCopy precedes", "the 'original' used as the patch base is taken after "+nm+" already rewrote the status: the merge patch is empty and the recomputed totals are never written")
				// from here, every exit that is not an error passes the patch
				_, path, found := reachAvoiding([]cfgPos{afterInstr(in)}, func(x ssa.Instruction) bool {
					r, ok := x.(*ssa.Return)
					if !ok {
						return false
					}
					t := termOf(r.Results[len(r.Results)-1])
					return !(t.Op == "call" && t.Fn != nil && neverNilResult(t.Fn))
				}, isPatch, func(from, to *ssa.BasicBlock) bool {
					// an exit taken because the recomputed object equals the snapshot has nothing to write
					return !fx.edgeEstablishes(from, to, func(f Fact) bool {
						return f.Pol && f.T.Op == "call" && strings.HasSuffix(f.T.Name, "DeepEqual") && f.T.contains(func(x *Term) bool {
							return x.Op == "call" && x.Fn != nil && x.Fn.Name() == "DeepCopy"
						})
					})
				})
				c.Check(!found, "O9", "MPT", funcKey(rec)+": after "+nm+".UpdateQueue every non-error exit writes the status", instrPos(in), "Status().Patch on all such paths", "the reconcile can finish successfully without writing the recomputed status ("+pathStr(path)+")")
			}
		}
		for _, in := range patches {
			args := in.(ssa.CallInstruction).Common().Args
			okObj := false
			okBase := false
			if len(args) >= 3 {
				obj := termOf(args[1])
				base := termOf(args[2])
				okBase = base.contains(func(x *Term) bool { return x.Op == "call" && x.Fn != nil && x.Fn.Name() == "DeepCopy" })
				// the object patched is the one the updaters were given
				for _, u := range instrsIn(rec, isUQ("resource_updater")) {
					ua := u.(ssa.CallInstruction).Common().Args
					if sameTerm(termOf(ua[len(ua)-1]), obj) {
						okObj = true
					}
				}
			}
			c.Check(okObj && okBase, "O9", "PROV", funcKey(rec)+": Status().Patch(recomputed queue, MergeFrom(copy taken before))", instrPos(in), "object and base agree", "the status patch does not send the recomputed queue against the pre-recompute copy")
		}
	}

	// ---- O2: queue totals
	if uq := c.Anchor("O2", pkgQueueRes, "ResourceUpdater", "UpdateQueue"); uq != nil {
		sumCalls := instrsIn(uq, func(in ssa.Instruction) bool {
			cc, ok := in.(ssa.CallInstruction)
			return ok && calleeOf(cc) != nil && strings.HasPrefix(calleeOf(cc).Name(), "sum")
		})
		c.Floor("O2", "MPT summation calls", len(sumCalls), 2)
		for _, fld := range []string{"Requested", "Allocated", "AllocatedNonPreemptible"} {
			isReset := func(in ssa.Instruction) bool {
				st, ok := in.(*ssa.Store)
				if !ok {
					return false
				}
				t := termOf(st.Addr)
				_, fresh := st.Val.(*ssa.MakeMap)
				return t.Op == "field" && t.Name == fld && t.Args[0].lastField() == "Status" && fresh
			}
			ok := true
			for _, sc := range sumCalls {
				if pre, _ := p.precededBy(sc, isReset, 0, map[*ssa.Function]bool{}); !pre {
					ok = false
				}
			}
			c.Check(ok, "O2", "MPT", funcKey(uq)+": Status."+fld+" reset before summation", uq.Pos(), "fresh ResourceList before the sums", "the queue's "+fld+" total is not reset before children and pod groups are added: the old total is counted again on every reconcile")
		}
	}
	for _, nm := range []string{"sumChildQueueResources", "sumPodGroupsResources"} {
		fn := c.Anchor("O2", pkgQueueRes, "ResourceUpdater", nm)
		if fn == nil {
			continue
		}
		n := 0
		for _, h := range p.deepFind(fn, func(in ssa.Instruction) bool {
			st, ok := in.(*ssa.Store)
			if !ok {
				return false
			}
			t := termOf(st.Addr)
			return t.Op == "field" && t.Args[0].lastField() == "Status"
		}, 2) {
			in := h.In
			st := in.(*ssa.Store)
			addr := liftTerm(termOf(st.Addr), h.Chain)
			if rootParam(addr) != 2 {
				continue
			}
			fld := addr.Name
			n++
			call, ok := st.Val.(*ssa.Call)
			okSum := ok && calleeOf(call) != nil && calleeOf(call).Name() == "SumResources"
			if okSum {
				for _, a := range call.Common().Args {
					if liftTerm(termOf(a), h.Chain).lastField() != fld {
						okSum = false
					}
				}
			}
			c.Check(okSum, "O2", "FIELDS", funcKey(fn)+": Status."+fld+" sums the same-named field", instrPos(in), "SumResources(x."+fld+", queue.Status."+fld+")", "the queue's "+fld+" total is fed from a different field (cross-wired sum)")
		}
		c.Floor("O2", "FIELDS summed fields in "+nm, n, 3)
	}
	// pod groups are selected by their spec.queue in the index and in the enqueue mapping alike
	if idx := c.Anchor("O2", "pkg/queuecontroller/controllers", "", "indexPodGroupByQueue"); idx != nil {
		ok := true
		n := 0
		for _, in := range instrsIn(idx, func(in ssa.Instruction) bool { _, isSt := in.(*ssa.Store); return isSt }) {
			st := in.(*ssa.Store)
			if _, isIdx := st.Addr.(*ssa.IndexAddr); !isIdx {
				continue
			}
			n++
			t := termOf(st.Val)
			if !(t.lastField() == "Queue" && t.Args[0].lastField() == "Spec") {
				ok = false
			}
		}
		c.Check(ok && n > 0, "O2", "PROV", funcKey(idx)+": pod groups are indexed by spec.queue", idx.Pos(), "[]string{pg.Spec.Queue}", "the pod-group-by-queue index is keyed by something other than spec.queue while reconciles are triggered for spec.queue: a moved pod group is summed into the wrong queue")
	}
	if idx := c.Anchor("O2", "pkg/queuecontroller/controllers", "", "indexQueueByParent"); idx != nil {
		ok, n := true, 0
		for _, in := range instrsIn(idx, func(in ssa.Instruction) bool { _, isSt := in.(*ssa.Store); return isSt }) {
			st := in.(*ssa.Store)
			if _, isIdx := st.Addr.(*ssa.IndexAddr); !isIdx {
				continue
			}
			n++
			if t := termOf(st.Val); !(t.lastField() == "ParentQueue" && t.Args[0].lastField() == "Spec") {
				ok = false
			}
		}
		c.Check(ok && n > 0, "O2", "PROV", funcKey(idx)+": child queues are indexed by spec.parentQueue", idx.Pos(), "[]string{queue.Spec.ParentQueue}", "the child-queue index is keyed by something other than spec.parentQueue")
	}

	// ---- O6: field-index agreement: every indexed List names an index that is registered for the listed kind,
	// and the event mapping that triggers the reconcile reads the same source as the index extractor.
	type reg struct {
		kind, key string
		extractor *ssa.Function
	}
	var regs []reg
	scan := append(p.FuncsIn("pkg/queuecontroller"), p.FuncsIn("pkg/podgroupcontroller")...)
	for _, fn := range scan {
		if isTestdataOrMock(fn) {
			continue
		}
		for _, in := range instrsIn(fn, isInvokeNamed("IndexField")) {
			args := in.(ssa.CallInstruction).Common().Args
			if len(args) != 4 {
				continue
			}
			k, isConst := args[2].(*ssa.Const)
			ex := p.resolveFuncValue(args[3])
			if !isConst || ex == nil {
				c.Undec("O6", "INDEX", funcKey(fn)+": IndexField registration", instrPos(in), "index name or extractor is not a constant / known function")
				continue
			}
			regs = append(regs, reg{strings.TrimPrefix(typeKey(valueStaticType(args[1])), "*"), constString(k), ex})
		}
	}
	c.Floor("O6", "INDEX registrations", len(regs), 3)
	lists := 0
	for _, fn := range scan {
		if isTestdataOrMock(fn) {
			continue
		}
		var keys []*ssa.MapUpdate
		for _, in := range instrsIn(fn, func(in ssa.Instruction) bool {
			mu, ok := in.(*ssa.MapUpdate)
			return ok && strings.HasSuffix(typeKey(mu.Map.Type()), "client.MatchingFields")
		}) {
			keys = append(keys, in.(*ssa.MapUpdate))
		}
		if len(keys) == 0 {
			continue
		}
		listCalls := instrsIn(fn, isInvokeNamed("List"))
		if len(listCalls) != 1 || len(keys) != 1 {
			c.Undec("O6", "INDEX", funcKey(fn)+": indexed List", fn.Pos(), "expected exactly one List call and one MatchingFields entry")
			continue
		}
		lists++
		c.Analysed(funcKey(fn))
		args := listCalls[0].(ssa.CallInstruction).Common().Args
		kind := strings.TrimSuffix(strings.TrimPrefix(typeKey(valueStaticType(args[1])), "*"), "List")
		k, isConst := keys[0].Key.(*ssa.Const)
		var hit *reg
		for i := range regs {
			if isConst && regs[i].kind == kind && regs[i].key == constString(k) {
				hit = &regs[i]
			}
		}
		construct := funcKey(fn) + ": List(" + kind + ") by a registered index of that kind"
		if hit == nil {
			c.Viol("O6", "INDEX", construct, instrPos(keys[0]), fmt.Sprintf("the List filters %s objects by index %v, which is not registered for %s (registered: %v): the aggregate is computed over the wrong set of objects or the call fails on every reconcile", kind, termOf(keys[0].Key), kind, regs))
			continue
		}
		v := termOf(keys[0].Value)
		c.Check(v.lastField() == "Name" && rootParam(v) >= 0, "O6", "INDEX", construct, instrPos(keys[0]), "index "+hit.key+" (extractor "+funcKey(hit.extractor)+") looked up by the owner's name", "the index is looked up by "+v.String()+" instead of the owner's name")
	}
	c.Floor("O6", "INDEX indexed List calls", lists, 4)
	// pods of a pod group: same-named groups of other namespaces must not be summed
	if ga := c.Anchor("O6", "pkg/podgroupcontroller/controllers/cluster_relations", "", "GetAllPodsOfPodGroup"); ga != nil {
		ok := false
		for _, in := range instrsIn(ga, func(in ssa.Instruction) bool {
			cc, isC := in.(ssa.CallInstruction)
			return isC && strings.Contains(typeKey(valueStaticTypeOfCall(cc)), "client.InNamespace")
		}) {
			_ = in
		}
		for _, b := range ga.Blocks {
			for _, in := range b.Instrs {
				if cv, isCv := in.(*ssa.ChangeType); isCv && strings.HasSuffix(typeKey(cv.Type()), "client.InNamespace") {
					if t := termOf(cv.X); t.lastField() == "Namespace" && rootParam(t) == 1 {
						ok = true
					}
				}
				if cv, isCv := in.(*ssa.Convert); isCv && strings.HasSuffix(typeKey(cv.Type()), "client.InNamespace") {
					if t := termOf(cv.X); t.lastField() == "Namespace" && rootParam(t) == 1 {
						ok = true
					}
				}
			}
		}
		c.Check(ok, "O6", "INDEX", funcKey(ga)+": pods listed in the pod group's namespace only", ga.Pos(), "client.InNamespace(podGroup.Namespace)", "pods of a same-named pod group in another namespace are summed into this pod group's status")
	}
	// the event mapping names the object the extractor indexes under
	for _, pr := range []struct{ pkg, mapper, extractor string }{
		{"pkg/queuecontroller/controllers", "enqueueQueue", "indexQueueByParent"},
		{"pkg/queuecontroller/controllers", "enqueuePodGroup", "indexPodGroupByQueue"},
	} {
		mp, ex := c.Anchor("O6", pr.pkg, "", pr.mapper), c.Anchor("O6", pr.pkg, "", pr.extractor)
		if mp == nil || ex == nil {
			continue
		}
		src := func(fn *ssa.Function, want string) map[string]bool {
			out := map[string]bool{}
			for _, in := range instrsIn(fn, func(in ssa.Instruction) bool { _, isSt := in.(*ssa.Store); return isSt }) {
				st := in.(*ssa.Store)
				t := termOf(st.Val)
				if b, isB := st.Val.Type().Underlying().(*types.Basic); !isB || b.Kind() != types.String {
					continue
				}
				if _, isC := st.Val.(*ssa.Const); isC {
					continue
				}
				// access path relative to the object: Spec.X
				if t.Op == "field" && t.Args[0].Op == "field" {
					out[t.Args[0].Name+"."+t.Name] = true
				} else {
					out[t.String()] = true
				}
			}
			// a name handed to a helper that builds the request / key list from its string parameter
			for _, in := range instrsIn(fn, func(in ssa.Instruction) bool { _, isCall := in.(ssa.CallInstruction); return isCall }) {
				cs := in.(ssa.CallInstruction)
				g := cs.Common().StaticCallee()
				if g == nil || len(g.Blocks) == 0 || !hasModPrefix(g) {
					continue
				}
				for i, arg := range cs.Common().Args {
					if bt, isB := arg.Type().Underlying().(*types.Basic); !isB || bt.Kind() != types.String || i >= len(g.Params) {
						continue
					}
					if _, isC := arg.(*ssa.Const); isC {
						continue
					}
					stored := false
					for _, gi := range instrsIn(g, func(x ssa.Instruction) bool { st, isSt := x.(*ssa.Store); return isSt && st.Val == ssa.Value(g.Params[i]) }) {
						_ = gi
						stored = true
					}
					if !stored {
						continue
					}
					t := termOf(arg)
					if t.Op == "field" && t.Args[0].Op == "field" {
						out[t.Args[0].Name+"."+t.Name] = true
					} else {
						out[t.String()] = true
					}
				}
			}
			return out
		}
		a, b := src(mp, ""), src(ex, "")
		same := len(a) == 1 && len(b) == 1
		for k := range a {
			if !b[k] {
				same = false
			}
		}
		c.Check(same, "O6", "INDEX", funcKey(mp)+" ↔ "+funcKey(ex)+": reconcile is requested for the key the object is indexed under", mp.Pos(), fmt.Sprint(keysOf(a)), fmt.Sprintf("the event mapping requests a reconcile for %v but the object is indexed under %v: the queue that sums it is not the one that gets reconciled", keysOf(a), keysOf(b)))
	}
	if mp := c.Anchor("O6", "pkg/podgroupcontroller/controllers", "", "mapPodEventToPodGroup"); mp != nil {
		ex := c.Anchor("O6", "pkg/podgroupcontroller/controllers/cluster_relations", "", "PodGroupNameIndexerFunc")
		gn := p.Func("pkg/podgroupcontroller/controllers/cluster_relations", "", "GetPodGroupName")
		if ex != nil && gn != nil {
			both := len(instrsIn(mp, isCallToFn(gn))) > 0 && len(instrsIn(ex, isCallToFn(gn))) > 0
			c.Check(both, "O6", "INDEX", funcKey(mp)+" ↔ "+funcKey(ex)+": both derive the pod group name through GetPodGroupName", mp.Pos(), "shared extractor", "the pod event mapping and the pod index derive the pod group name differently")
		}
	}

	// ---- O7: the pod group aggregate starts empty, takes every listed pod, and sums like into like
	pkgPGC := "pkg/podgroupcontroller/controllers"
	if calc := c.Anchor("O7", pkgPGC, "PodGroupReconciler", "calculatePodGroupMetadata"); calc != nil {
		// the accumulation step: the call of PodGroupMetadata.AddPodMetadata, direct or through a helper of the loop
		accum := p.Func(pkgPGC+"/metadata", "PodGroupMetadata", "AddPodMetadata")
		newMD := p.Func(pkgPGC+"/metadata", "", "NewPodGroupMetadata")
		adds := instrsIn(calc, p.performs(isCallToFn(accum), 2))
		c.Floor("O7", "MPT addPodMetadata call sites", len(adds), 1)
		for _, in := range adds {
			ok, path := everyIterationPassesR(in, func(x ssa.Instruction) bool { return x == in }, nil, func(r *ssa.Return) bool {
				// a return that reports an error abandons the whole computation: nothing partial is written
				return len(r.Results) == 2 && termOf(r.Results[1]).isNilConst()
			})
			c.Check(ok, "O7", "MPT", funcKey(calc)+": every listed pod is added (or the computation is abandoned with an error)", instrPos(in), "each iteration reaches addPodMetadata", "some pod of the pod group is skipped ("+pathStr(path)+"): its resources are missing from the status")
			fresh, desc := false, ""
			for _, a := range in.(ssa.CallInstruction).Common().Args {
				if !strings.HasSuffix(typeKey(a.Type()), "metadata.PodGroupMetadata") {
					continue
				}
				t := termOf(a)
				desc = t.String()
				fresh = t.isCallTo(newMD) || t.contains(func(x *Term) bool { return x.isCallTo(newMD) })
			}
			c.Check(fresh, "O7", "PROV", funcKey(calc)+": sums accumulate into a fresh PodGroupMetadata", instrPos(in), desc, "the accumulator is not a fresh NewPodGroupMetadata(): totals of an earlier reconcile are counted again")
		}
		if newMD != nil {
			n := 0
			for _, in := range instrsIn(newMD, func(in ssa.Instruction) bool { _, isSt := in.(*ssa.Store); return isSt }) {
				st := in.(*ssa.Store)
				if _, isFA := st.Addr.(*ssa.FieldAddr); !isFA {
					continue
				}
				n++
				_, fresh := st.Val.(*ssa.MakeMap)
				c.Check(fresh, "O7", "PROV", funcKey(newMD)+": "+termOf(st.Addr).Name+" starts empty", instrPos(in), "fresh ResourceList", "the aggregate does not start from an empty list")
			}
			c.Floor("O7", "PROV initial fields", n, 2)
		}
	}
	if apm := c.Anchor("O7", pkgPGC+"/metadata", "PodGroupMetadata", "AddPodMetadata"); apm != nil {
		want := map[string]string{"Requested": "RequestedResources", "Allocated": "AllocatedResources"}
		n := 0
		for _, in := range instrsIn(apm, func(in ssa.Instruction) bool { _, isSt := in.(*ssa.Store); return isSt }) {
			st := in.(*ssa.Store)
			fa, isFA := st.Addr.(*ssa.FieldAddr)
			if !isFA || rootParam(termOf(fa)) != 0 {
				continue
			}
			fld := fieldOfAddr(fa).Name()
			n++
			call, isCall := st.Val.(*ssa.Call)
			ok := isCall && calleeOf(call) != nil && calleeOf(call).Name() == "SumResources" && want[fld] != ""
			if ok {
				seen := map[string]bool{}
				for _, a := range call.Common().Args {
					seen[termOf(a).lastField()] = true
				}
				ok = len(seen) == 2 && seen[fld] && seen[want[fld]]
			}
			c.Check(ok, "O7", "FIELDS", funcKey(apm)+": "+fld+" accumulates "+want[fld], instrPos(in), "SumResources(pgm."+fld+", pod."+want[fld]+")", "the pod group's "+fld+" is fed from a different per-pod list (cross-wired sum)")
		}
		c.Floor("O7", "FIELDS accumulated fields", n, 2)
	}
	if gp := c.Anchor("O7", pkgPGC+"/metadata", "", "GetPodMetadata"); gp != nil {
		// the per-pod lists returned are the ones computed under the matching predicate
		for _, pr := range []struct{ fld, calc string }{{"RequestedResources", "calculateRequestedResources"}, {"AllocatedResources", "calculatedAllocatedResources"}} {
			ok, n := true, 0
			for _, in := range instrsIn(gp, func(in ssa.Instruction) bool {
				st, isSt := in.(*ssa.Store)
				if !isSt {
					return false
				}
				fa, isFA := st.Addr.(*ssa.FieldAddr)
				return isFA && fieldOfAddr(fa).Name() == pr.fld
			}) {
				n++
				if !valueMayOnlyComeFrom(in.(*ssa.Store).Val, pr.calc, 4) {
					ok = false
				}
			}
			c.Check(ok && n > 0, "O7", "PROV", funcKey(gp)+": "+pr.fld+" is empty or the result of "+pr.calc, gp.Pos(), "phi(fresh list, "+pr.calc+"(pod))", pr.fld+" of a pod can carry a list not computed by "+pr.calc)
		}
	}

	// ---- O4: which pods are counted
	pkgMeta := "pkg/podgroupcontroller/controllers/metadata"
	if act := c.Anchor("O4", pkgMeta, "", "isActivePod"); act != nil {
		paths := fx.retPaths(act, 0, WantTrue)
		for i, rp := range paths {
			_, ok := hasFact(rp.Facts, func(f Fact) bool {
				if f.Pol && f.T.Op == "bin" && f.T.Name == "==" && f.T.Args[0].lastField() == "Phase" && (strings.Contains(f.T.Args[1].String(), "Pending") || strings.Contains(f.T.Args[1].String(), "Running")) {
					return true
				}
				// membership in a package-level list of phases whose members are exactly these
				if f.Pol && f.T.Op == "call" && strings.Contains(f.T.Name, "Contains") && len(f.T.Args) == 2 && f.T.Args[1].lastField() == "Phase" {
					gv0 := f.T.Args[0].V
					if ld, isLd := gv0.(*ssa.UnOp); isLd {
						gv0 = ld.X
					}
					if g, isG := gv0.(*ssa.Global); isG {
						if gv, isVar := g.Object().(*types.Var); isVar {
							members := compositeConsts(p, gv)
							all := len(members) > 0
							for _, m := range members {
								if m != `"Pending"` && m != `"Running"` {
									all = false
								}
							}
							return all
						}
					}
				}
				return false
			})
			c.Check(ok, "O4", "ABS", fmt.Sprintf("%s true path#%d", funcKey(act), i), rp.Pos, "phase Pending or Running", "a pod outside {Pending, Running} is counted as requesting resources")
		}
		c.Floor("O4", "ABS active paths", len(paths), 2)
	}
	if al := c.Anchor("O4", pkgMeta, "", "isAllocatedPod"); al != nil {
		paths := fx.retPaths(al, 0, WantTrue)
		for i, rp := range paths {
			_, running := hasFact(rp.Facts, func(f Fact) bool {
				return f.Pol && f.T.Op == "bin" && f.T.Name == "==" && f.T.Args[0].lastField() == "Phase" && strings.Contains(f.T.Args[1].String(), "Running")
			})
			_, pending := hasFact(rp.Facts, func(f Fact) bool {
				return f.Pol && f.T.Op == "bin" && f.T.Name == "==" && f.T.Args[0].lastField() == "Phase" && strings.Contains(f.T.Args[1].String(), "Pending")
			})
			_, sched := hasFact(rp.Facts, func(f Fact) bool { return f.Pol && isCallNamed(f.T, "isPodScheduled") })
			c.Check(running || (pending && sched), "O4", "ABS", fmt.Sprintf("%s true path#%d", funcKey(al), i), rp.Pos, "Running, or Pending ∧ scheduled", "a pod that is neither running nor pending-and-scheduled is counted as allocated")
		}
		c.Floor("O4", "ABS allocated paths", len(paths), 2)
	}
	if gp := c.Anchor("O4", pkgMeta, "", "GetPodMetadata"); gp != nil {
		for _, pr := range []struct{ calc, pred string }{{"calculateRequestedResources", "isActivePod"}, {"calculatedAllocatedResources", "isAllocatedPod"}} {
			for _, in := range instrsIn(gp, func(in ssa.Instruction) bool {
				cc, ok := in.(ssa.CallInstruction)
				return ok && calleeOf(cc) != nil && calleeOf(cc).Name() == pr.calc
			}) {
				d, ok := hasFact(fx.FactsAt(in), func(f Fact) bool { return f.Pol && isCallNamed(f.T, pr.pred) })
				c.Check(ok, "O4", "DOM", funcKey(gp)+": "+pr.calc+" only for "+pr.pred, instrPos(in), trunc(d, 80), pr.calc+" is applied to pods that do not satisfy "+pr.pred)
			}
		}
	}

	// ---- O8: nothing written to a status depends on the order in which the cache lists objects
	nl := 0
	for _, fn := range scan {
		if isTestdataOrMock(fn) {
			continue
		}
		nl++
		for _, s := range findListOrderSinks(fn) {
			c.Analysed(funcKey(fn))
			c.Viol("O8", "LISTORDER", funcKey(fn)+": order of listed objects reaches an ordered value", instrPos(s.Sink), s.What+": a cached List by field index returns objects in Go map order (client-go threadSafeMap.ByIndex), so the value written differs between reconciles of an unchanged cluster; the status is patched again, which triggers the next reconcile")
		}
	}
	c.Hold("O8", "LISTORDER", fmt.Sprintf("%d status-controller functions scanned", nl), 0, "appends inside loops over List().Items that are never sorted are reported individually")
	c.Floor("O8", "LISTORDER status-controller functions", nl, 25)

	// ---- O5: operator desired state free of map-order dependence
	// work lists whose order cannot reach any object's content (one named symbol, one reason each)
	orderFree := map[string]string{
		"(*pkg/operator/operands/deployable.DeployableOperands).calculateActionsOnObjects": "the slices are work lists of independent create/delete API calls on distinct objects; no desired object's content depends on their order",
	}
	n := 0
	for _, fn := range p.FuncsIn("pkg/operator/operands") {
		if isTestdataOrMock(fn) {
			continue
		}
		n++
		for _, s := range findMapOrderSinks(fn) {
			c.Analysed(funcKey(fn))
			if why, ok := orderFree[funcKey(fn)]; ok {
				c.Hold("O5", "MAPORDER", funcKey(fn)+": map-ordered work list", instrPos(s.Sink), why)
				continue
			}
			c.Viol("O5", "MAPORDER", funcKey(fn)+": map iteration order reaches an ordered value", instrPos(s.Sink), s.What+": the desired object differs between reconciles of the same configuration, so the operator updates it every time (no fixpoint)")
		}
	}
	c.Hold("O5", "MAPORDER", fmt.Sprintf("%d operand functions scanned", n), 0, "unsorted map iterations feeding ordered values are reported individually")
	c.Floor("O5", "MAPORDER operand functions", n, 100)
}

func keysOf(m map[string]bool) []string {
	var out []string
	for k := range m {
		out = append(out, k)
	}
	sort.Strings(out)
	return out
}

// valueStaticType: the type of the value before conversion to an interface.
func valueStaticType(v ssa.Value) types.Type {
	for {
		switch x := v.(type) {
		case *ssa.MakeInterface:
			v = x.X
			continue
		case *ssa.ChangeInterface:
			v = x.X
			continue
		}
		return v.Type()
	}
}

func valueStaticTypeOfCall(c ssa.CallInstruction) types.Type {
	if v := c.Value(); v != nil {
		return v.Type()
	}
	return types.Typ[types.Invalid]
}

// valueMayOnlyComeFrom: v is (a phi of) fresh empty maps and results of calls to the named function.
func valueMayOnlyComeFrom(v ssa.Value, callee string, depth int) bool {
	if depth == 0 {
		return false
	}
	switch x := v.(type) {
	case *ssa.MakeMap:
		return true
	case *ssa.Phi:
		for _, e := range x.Edges {
			if !valueMayOnlyComeFrom(e, callee, depth-1) {
				return false
			}
		}
		return true
	case *ssa.Extract:
		if call, ok := x.Tuple.(*ssa.Call); ok {
			return calleeOf(call) != nil && calleeOf(call).Name() == callee && x.Index == 0
		}
	case *ssa.UnOp:
		if a, ok := x.X.(*ssa.Alloc); ok {
			n := 0
			for _, r := range *a.Referrers() {
				if st, ok := r.(*ssa.Store); ok && st.Addr == a {
					n++
					if !valueMayOnlyComeFrom(st.Val, callee, depth-1) {
						return false
					}
				}
			}
			return n > 0
		}
	}
	return false
}

// runC20Preemptibility (O10): the preemptibility that selects AllocatedNonPreemptible is derived from the pod
// group's priority the way the scheduler derives it: the named class, else the cluster's global-default class,
// and only when neither exists the built-in default. The built-in default must not be returned on a path that
// did not look for the global-default class.
func runC20Preemptibility(c *Ctx) {
	p, fx := c.P, c.Fx
	const pk = "pkg/podgroupcontroller/utilities/pod-group"
	fn := c.Anchor("O10", pk, "", "getPodGroupPriority")
	if fn == nil {
		return
	}
	global := p.Func(pk, "", "getGlobalDefaultPriorityClass")
	specific := p.Func(pk, "", "getSpecificPriorityClass")
	def, okDef := p.ConstInt("pkg/common/constants", "DefaultPodGroupPriority")
	n := 0
	for _, b := range fn.Blocks {
		ret, ok := b.Instrs[len(b.Instrs)-1].(*ssa.Return)
		if !ok || len(ret.Results) != 2 {
			continue
		}
		k, isC := ret.Results[0].(*ssa.Const)
		if !isC || k.Value == nil || !okDef || k.Value.ExactString() != fmt.Sprint(def) {
			continue
		}
		if !termOf(ret.Results[1]).isNilConst() {
			continue
		}
		n++
		okAll := true
		for _, fs := range fx.pathFactsTo(b, 3) {
			_, g := hasFact(fs, func(f Fact) bool {
				return factNilTerm(f, false, func(t *Term) bool { return t.Op == "extract" && t.Name == "1" && t.Args[0].isCallTo(global) })
			})
			_, s := hasFact(fs, func(f Fact) bool {
				return factNilTerm(f, false, func(t *Term) bool { return t.Op == "extract" && t.Name == "1" && t.Args[0].isCallTo(specific) })
			})
			if !g || !s {
				okAll = false
			}
		}
		c.Check(okAll, "O10", "RET", funcKey(fn)+": the built-in default priority only after the named class and the global-default class were not found", ret.Pos(), "both lookups failed on every path to this return", "the built-in default priority can be returned without consulting the cluster's global-default PriorityClass (e.g. for an empty class name): a pod group that the scheduler treats as non-preemptible is reported with an empty allocatedNonPreemptible, and every ancestor queue sums the wrong value")
	}
	c.Floor("O10", "RET default-priority returns", n, 1)
	if ip := c.Anchor("O10", pk, "", "IsPreemptible"); ip != nil {
		calc := 0
		for _, in := range instrsIn(ip, func(in ssa.Instruction) bool {
			cc, ok := in.(ssa.CallInstruction)
			return ok && calleeOf(cc) != nil && calleeOf(cc).Name() == "CalculatePreemptibility"
		}) {
			calc++
			args := in.(ssa.CallInstruction).Common().Args
			okA := len(args) == 2 && strings.HasSuffix(termOf(args[0]).String(), ".Spec.Preemptibility") && termOf(args[1]).contains(func(x *Term) bool { return x.isCallTo(fn) })
			c.Check(okA, "O10", "PROV", funcKey(ip)+": preemptibility = CalculatePreemptibility(spec.preemptibility, resolved priority)", instrPos(in), "the shared rule of the scheduler", "the status controller derives preemptibility from other inputs than the scheduler does")
		}
		c.Floor("O10", "PROV preemptibility computations", calc, 1)
	}
}

// C20-O11 (MUSTDEF): desired objects that are built ON TOP of the live object. The operator fetches the current
// object (ObjectForKAIConfig) and overwrites the fields it owns; Deploy then compares desired with current. A field
// taken from the Config must therefore be assigned on EVERY successful path: a field that is assigned only when the
// configured value is non-empty keeps the live value when the setting is removed — desired equals current, nothing is
// updated, and the cluster never converges to the Config (a removed nodeSelector stays for ever).
func runC20DesiredOnLive(c *Ctx) {
	p := c.P
	n := 0
	for _, fn := range p.FuncsIn("pkg/operator/operands") {
		if isTestdataOrMock(fn) || fn.Blocks == nil {
			continue
		}
		var live []ssa.Value
		for _, in := range instrsIn(fn, func(in ssa.Instruction) bool {
			cc, ok := in.(*ssa.Call)
			return ok && calleeOf(cc) != nil && (calleeOf(cc).Name() == "ObjectForKAIConfig" || calleeOf(cc).Name() == "DeploymentForKAIConfig")
		}) {
			live = append(live, in.(ssa.Value))
		}
		if len(live) == 0 {
			continue
		}
		isLiveRooted := func(t *Term) bool {
			return t.contains(func(x *Term) bool {
				if x.V == nil {
					return false
				}
				for _, l := range live {
					if x.V == l {
						return true
					}
					if ex, ok := x.V.(*ssa.Extract); ok && ex.Tuple == l {
						return true
					}
				}
				return false
			})
		}
		fromConfig := func(v ssa.Value) bool {
			for _, src := range valueSources(v, 3) {
				t := termOf(src)
				if t.contains(func(x *Term) bool {
					return x.Op == "param" && x.V != nil && (strings.HasSuffix(typeKey(x.V.Type()), "kai/v1.Config") || strings.Contains(typeKey(x.V.Type()), "kai/v1/"))
				}) {
					return true
				}
			}
			return false
		}
		byKey := map[string][]ssa.Instruction{}
		for _, in := range instrsIn(fn, func(in ssa.Instruction) bool { _, ok := in.(*ssa.Store); return ok }) {
			st := in.(*ssa.Store)
			at := termOf(st.Addr)
			if at.Op != "field" || !isLiveRooted(at) || !fromConfig(st.Val) {
				continue
			}
			byKey[at.String()] = append(byKey[at.String()], in)
		}
		var keys []string
		for k := range byKey {
			keys = append(keys, k)
		}
		sort.Strings(keys)
		for _, k := range keys {
			stores := byKey[k]
			n++
			isStore := func(x ssa.Instruction) bool {
				for _, s := range stores {
					if s == x {
						return true
					}
				}
				return false
			}
			okRet := func(x ssa.Instruction) bool {
				r, ok := x.(*ssa.Return)
				if !ok {
					return false
				}
				if len(r.Results) == 0 {
					return true
				}
				last := r.Results[len(r.Results)-1]
				if types.Identical(last.Type(), types.Universe.Lookup("error").Type()) {
					k, isK := last.(*ssa.Const)
					return isK && k.Value == nil
				}
				return true
			}
			_, path, found := reachAvoiding([]cfgPos{entryPos(fn)}, okRet, isStore, nil)
			fld := k[strings.LastIndex(k, ".")+1:]
			c.Check(!found, "O11", "MUSTDEF", funcKey(fn)+": "+fld+" of the desired object is assigned from the Config on every path", instrPos(stores[0]), "assigned unconditionally",
				"the desired object is built on top of the live one, and "+fld+" is taken from the Config only on some paths ("+pathStr(path)+"): when the setting is removed the live value is inherited, desired equals current and the operator never removes it")
		}
	}
	c.Floor("O11", "MUSTDEF config-derived fields of desired-on-live objects", n, 3)
}

// C20-O12 (ERRDROP): an error of a computation that feeds a status is never silently dropped. The status controllers
// sum per-pod and per-group quantities obtained from lookups (node GPU memory, resource claims, priority classes); a
// lookup that fails returns a zero quantity together with its error. If that error is bound to a variable that is
// never read (overwritten by the next `x, err :=`), the reconcile "succeeds" with the zero in the sum, the wrong status
// is written, and nothing retries. In the status controllers every error result that is bound to a variable is read.
func runC20ErrDrop(c *Ctx) {
	p := c.P
	n := 0
	for _, pk := range []string{"pkg/podgroupcontroller", "pkg/queuecontroller"} {
		for _, fn := range p.FuncsIn(pk) {
			if isTestdataOrMock(fn) {
				continue
			}
			for _, b := range fn.Blocks {
				for _, in := range b.Instrs {
					if ex, ok := in.(*ssa.Extract); ok && types.Identical(ex.Type(), errorType) {
						n++
					}
				}
			}
			for _, in := range droppedErrors(fn) {
				c.Viol("O12", "ERRDROP", funcKey(fn)+": an error result is read before it is overwritten or abandoned", instrPos(in),
					"the error returned by this call is bound to a variable that is never read: a failed lookup contributes its zero value to the computed status, the reconcile reports success and the wrong status stays until something else changes")
			}
		}
	}
	c.Hold("O12", "ERRDROP", fmt.Sprintf("%d error results bound to variables in the status controllers, all read", n), 0, "held")
	c.Floor("O12", "ERRDROP error results in the status controllers", n, 10)
}

// C20-O13 (SIBLING): what the operator inherits from the live object it never leaves unset on purpose. Before Deploy
// compares desired with current, the FieldInherit functions copy server-defaulted fields (desired.F == nil ⇒
// desired.F = current.F). That is only sound for fields the operands never express "unset" with: a field that an
// operand assigns from the Config on some paths and leaves nil on others (objectSelector = nil when no pod label
// selector is configured) would, once inherited, keep its old value for ever after the setting is removed.
// Two cooperating sites, each fine alone: the inherit list, and the operand's conditional assignment.
func runC20Inherit(c *Ctx) {
	p := c.P
	type fieldKey struct{ typ, fld string }
	inherited := map[fieldKey]ssa.Instruction{}
	for _, fn := range p.FuncsIn("pkg/operator/operands/known_types") {
		if isTestdataOrMock(fn) || !strings.HasSuffix(fn.Name(), "FieldInherit") || len(fn.Params) != 2 {
			continue
		}
		for _, in := range instrsIn(fn, func(in ssa.Instruction) bool { _, ok := in.(*ssa.Store); return ok }) {
			st := in.(*ssa.Store)
			fa, ok := st.Addr.(*ssa.FieldAddr)
			if !ok {
				continue
			}
			pt, ok := fa.X.Type().Underlying().(*types.Pointer)
			if !ok {
				continue
			}
			stt, ok := pt.Elem().Underlying().(*types.Struct)
			if !ok {
				continue
			}
			at, vt := termOf(st.Addr), termOf(st.Val)
			fromCurrent := vt.contains(func(x *Term) bool { return x.Op == "param" && x.V == ssa.Value(fn.Params[0]) })
			intoDesired := at.contains(func(x *Term) bool { return x.Op == "param" && x.V == ssa.Value(fn.Params[1]) })
			if fromCurrent && intoDesired && vt.lastField() == stt.Field(fa.Field).Name() {
				inherited[fieldKey{typeKey(pt.Elem()), stt.Field(fa.Field).Name()}] = in
			}
		}
	}
	c.Floor("O13", "SIBLING inherited fields", len(inherited), 2)
	var mayBeNil func(v ssa.Value, d int) bool
	mayBeNil = func(v ssa.Value, d int) bool {
		switch x := v.(type) {
		case *ssa.Const:
			return x.IsNil()
		case *ssa.Phi:
			if d > 4 {
				return false
			}
			for _, e := range x.Edges {
				if mayBeNil(e, d+1) {
					return true
				}
			}
		case *ssa.Extract:
			// a result of a module helper: nil on some return?
			if call, ok := x.Tuple.(*ssa.Call); ok {
				if cal := calleeOf(call); cal != nil && hasModPrefix(cal) && d <= 4 {
					for _, b := range cal.Blocks {
						if ret, ok := b.Instrs[len(b.Instrs)-1].(*ssa.Return); ok && x.Index < len(ret.Results) && mayBeNil(unspill(ret, x.Index), d+1) {
							return true
						}
					}
				}
			}
		case *ssa.UnOp:
			if a, ok := x.X.(*ssa.Alloc); ok && x.Op == token.MUL {
				// a named result / local: nil unless stored on every path — any missing store keeps the zero value
				stores := 0
				for _, r := range *a.Referrers() {
					if st, ok := r.(*ssa.Store); ok && st.Addr == ssa.Value(a) {
						stores++
						if mayBeNil(st.Val, d+1) {
							return true
						}
					}
				}
				if stores > 0 {
					for _, r := range *a.Referrers() {
						if st, ok := r.(*ssa.Store); ok && st.Addr == ssa.Value(a) && !dominatesInstr(st, x) {
							return true // assigned only on some paths: the zero value (nil) reaches the load on the others
						}
					}
				}
			}
		}
		return false
	}
	n := 0
	for _, fn := range p.FuncsIn("pkg/operator/operands") {
		if isTestdataOrMock(fn) || strings.Contains(funcPkgPath(fn), "/known_types") {
			continue
		}
		for _, in := range instrsIn(fn, func(in ssa.Instruction) bool { _, ok := in.(*ssa.Store); return ok }) {
			st := in.(*ssa.Store)
			fa, ok := st.Addr.(*ssa.FieldAddr)
			if !ok {
				continue
			}
			pt, ok := fa.X.Type().Underlying().(*types.Pointer)
			if !ok {
				continue
			}
			stt, ok := pt.Elem().Underlying().(*types.Struct)
			if !ok {
				continue
			}
			k := fieldKey{typeKey(pt.Elem()), stt.Field(fa.Field).Name()}
			inh, isInh := inherited[k]
			if !isInh {
				continue
			}
			n++
			c.Check(!mayBeNil(st.Val, 0), "O13", "SIBLING", funcKey(fn)+": "+k.fld+" (inherited from the live object when nil) is never left nil on purpose", instrPos(in), "always set",
				"the operand leaves "+k.fld+" nil on some paths (setting not configured) while "+funcKey(inh.Parent())+" fills a nil "+k.fld+" from the live object ("+p.Pos(instrPos(inh))+"): after the setting is removed from the Config the old value is inherited, desired equals current, and the cluster never converges")
		}
	}
	c.Floor("O13", "SIBLING operand assignments of inherited fields", n, 1)
}

// runC20BothSums (O14): a queue's status is the sum over its child queues AND over the pod groups attached to it,
// for every queue of the tree — a middle queue has both. Every error-free path through ResourceUpdater.UpdateQueue
// runs both sums; a sum that is skipped for some queues (only for top-level ones, only when a list is non-empty)
// leaves that level's contribution out, and the loss propagates to every ancestor.
func runC20BothSums(c *Ctx) {
	f := c.Anchor("O14", "pkg/queuecontroller/controllers/resource_updater", "ResourceUpdater", "UpdateQueue")
	if f == nil {
		return
	}
	errEdge := func(from, to *ssa.BasicBlock) bool {
		return !c.Fx.edgeEstablishes(from, to, func(ft Fact) bool {
			return ft.T.Op == "bin" && len(ft.T.Args) == 2 && ft.T.Args[1].isNilConst() && ft.T.Args[0].V != nil && types.Identical(ft.T.Args[0].V.Type(), errorType) &&
				((ft.T.Name == "!=" && ft.Pol) || (ft.T.Name == "==" && !ft.Pol))
		})
	}
	n := 0
	for _, name := range []string{"sumChildQueueResources", "sumPodGroupsResources"} {
		g := c.P.Func("pkg/queuecontroller/controllers/resource_updater", "ResourceUpdater", name)
		if g == nil {
			c.Undec("O14", "ANCHOR", name, 0, "not found")
			continue
		}
		n++
		_, path, found := reachAvoiding([]cfgPos{entryPos(f)}, isReturn, isCallToFn(g), errEdge)
		c.Check(!found, "O14", "MPT", funcKey(f)+": "+name+" runs for every queue", f.Pos(), "on every error-free path",
			name+" is skipped on some path ("+pathStr(path)+"): a queue that has both a parent and children (or both children and own pod groups) reports only part of what is below it, and so does every ancestor")
	}
	c.Floor("O14", "MPT sums of UpdateQueue", n, 2)
}

// runC20DeployAllSteps (O15): the operator's Deploy is the only place where objects that are owned but no longer
// desired are deleted, missing ones created and drifted ones updated. Every error-free path through it performs all
// three kinds of cluster writes (possibly on empty work lists — the decision what to write belongs to the diff, not to
// a short cut in front of it). A short cut that returns success early ("nothing desired", "nothing changed in the
// config") leaves the cluster in a state that is not a function of the configuration.
func runC20DeployAllSteps(c *Ctx) {
	f := c.Anchor("O15", "pkg/operator/operands/deployable", "DeployableOperands", "Deploy")
	if f == nil {
		return
	}
	errEdge := func(from, to *ssa.BasicBlock) bool {
		return !c.Fx.edgeEstablishes(from, to, func(ft Fact) bool {
			return ft.T.Op == "bin" && len(ft.T.Args) == 2 && ft.T.Args[1].isNilConst() && ft.T.Args[0].V != nil && types.Identical(ft.T.Args[0].V.Type(), errorType) &&
				((ft.T.Name == "!=" && ft.Pol) || (ft.T.Name == "==" && !ft.Pol))
		})
	}
	n := 0
	for _, kind := range [][]string{{"Create"}, {"Delete"}, {"Update", "Patch"}} {
		step := c.P.performs(isInvokeNamed(kind...), 3)
		if len(instrsIn(f, step)) == 0 {
			c.Undec("O15", "ANCHOR", "Deploy: no step that performs "+strings.Join(kind, "/"), f.Pos(), "not found")
			continue
		}
		n++
		_, path, found := reachAvoiding([]cfgPos{entryPos(f)}, isReturn, step, errEdge)
		c.Check(!found, "O15", "MPT", funcKey(f)+": the "+strings.Join(kind, "/")+" step runs on every error-free path", f.Pos(), "no success exit before the step",
			"Deploy can report success without its "+strings.Join(kind, "/")+" step ("+pathStr(path)+"): objects that are owned but no longer desired stay (or missing / drifted ones are not repaired), so the deployed state depends on what was deployed before, not only on the configuration")
	}
	c.Floor("O15", "MPT write steps of Deploy", n, 3)
}

// runC20QueueGauges (O16): the queue controller reports each queue through gauge vectors keyed by the queue name AND
// by label values taken from the queue's labels. Setting a gauge under new label values does not remove the series
// under the old ones: every vector that SetQueueMetrics writes is first cleared for the queue (DeletePartialMatch on
// the same vector, on every path to the write), otherwise a relabelled queue is reported twice, once with stale values.
func runC20QueueGauges(c *Ctx) {
	f := c.Anchor("O16", "pkg/queuecontroller/metrics", "", "SetQueueMetrics")
	if f == nil {
		return
	}
	globalOf := func(v ssa.Value) *ssa.Global {
		// the vector itself, or the vector embedded in it (promoted methods take the embedded *MetricVec)
		for i := 0; i < 6 && v != nil; i++ {
			switch x := v.(type) {
			case *ssa.UnOp:
				v = x.X
			case *ssa.FieldAddr:
				v = x.X
			case *ssa.Field:
				v = x.X
			case *ssa.Global:
				return x
			default:
				return nil
			}
		}
		return nil
	}
	isGaugeVec := func(t types.Type) bool { return strings.HasSuffix(typeKey(t), "prometheus.GaugeVec") }
	isClearCall := func(in ssa.Instruction) bool {
		cc, ok := in.(ssa.CallInstruction)
		if !ok {
			return false
		}
		cal := calleeOf(cc)
		return cal != nil && (cal.Name() == "DeletePartialMatch" || cal.Name() == "DeleteLabelValues" || cal.Name() == "Reset") && strings.Contains(funcPkgPath(cal), "prometheus")
	}
	clears := c.P.performs(isClearCall, 2)
	// (a) every write is preceded by the clearing step, whatever form the writes take (one statement per vector, a loop
	// over the vectors, a helper)
	n := 0
	for _, h := range c.P.deepFind(f, func(in ssa.Instruction) bool {
		cc, ok := in.(ssa.CallInstruction)
		if !ok {
			return false
		}
		cal := calleeOf(cc)
		return cal != nil && cal.Name() == "WithLabelValues" && strings.Contains(funcPkgPath(cal), "prometheus")
	}, 1) {
		site := h.In
		if len(h.Chain) > 0 {
			site = h.Chain[0]
		}
		n++
		_, path, found := reachAvoiding([]cfgPos{entryPos(f)}, func(in ssa.Instruction) bool { return in == site }, clears, nil)
		c.Check(!found, "O16", "MPT", funcKey(f)+": the queue's previous series are cleared before a gauge is set", instrPos(site), "a clearing call (DeletePartialMatch) on every path to the write",
			"a queue gauge is set without the queue's previous series having been removed ("+pathStr(path)+"): after a change of the queue's metric labels the old series stays and the queue is reported twice, once with stale values")
	}
	// (b) the clearing step covers every vector that is written: the gauge vectors referenced by SetQueueMetrics (and its
	// helpers) are all referenced by the functions that do the clearing
	vecsIn := func(fns []*ssa.Function) map[*ssa.Global]bool {
		out := map[*ssa.Global]bool{}
		for _, fn := range fns {
			for _, b := range fn.Blocks {
				for _, in := range b.Instrs {
					for _, op := range in.Operands(nil) {
						if g, ok := (*op).(*ssa.Global); ok {
							if pt, isP := g.Type().(*types.Pointer); isP && isGaugeVec(pt.Elem()) {
								out[g] = true
							}
						}
					}
				}
			}
		}
		return out
	}
	var clearFns, setFns []*ssa.Function
	seenFn := map[*ssa.Function]bool{}
	var collect func(fn *ssa.Function, d int)
	collect = func(fn *ssa.Function, d int) {
		if seenFn[fn] || d > 2 {
			return
		}
		seenFn[fn] = true
		doesClear := len(instrsIn(fn, isClearCall)) > 0
		if doesClear && fn != f {
			clearFns = append(clearFns, fn)
		} else {
			setFns = append(setFns, fn)
		}
		for _, in := range instrsIn(fn, func(in ssa.Instruction) bool { _, ok := in.(ssa.CallInstruction); return ok }) {
			if cal := in.(ssa.CallInstruction).Common().StaticCallee(); cal != nil && len(cal.Blocks) > 0 && hasModPrefix(cal) {
				collect(cal, d+1)
			}
		}
	}
	collect(f, 0)
	written, cleared := vecsIn(setFns), vecsIn(clearFns)
	if len(instrsIn(f, isClearCall)) > 0 {
		// the clearing is written out in SetQueueMetrics itself: the receivers of its clearing calls
		for _, in := range instrsIn(f, isClearCall) {
			if g := globalOf(in.(ssa.CallInstruction).Common().Args[0]); g != nil {
				cleared[g] = true
			}
		}
	}
	var missing []string
	for g := range written {
		if !cleared[g] {
			missing = append(missing, g.Name())
		}
	}
	sort.Strings(missing)
	c.Check(len(missing) == 0, "O16", "DUAL", funcKey(f)+": every gauge vector that is set is also cleared", f.Pos(), fmt.Sprintf("%d vectors set, %d cleared", len(written), len(cleared)),
		"gauge vectors that are set for a queue but not cleared for it: "+strings.Join(missing, ", ")+" — their series under the queue's previous metric labels stay for ever")
	c.Floor("O16", "DUAL gauge vectors set for a queue", len(written), 7)
	c.Floor("O16", "MPT gauge writes of SetQueueMetrics", n, 1)
}

// runC20InactivePodsCannotFail (O17): a pod that is neither active nor allocated (Succeeded, Failed) contributes
// nothing to the PodGroup's sums — and it cannot fail the computation either: GetPodMetadata returns an error only
// from the computation of a list that the pod's phase selects (behind isActivePod / isAllocatedPod). An unconditional
// lookup (e.g. of the pod's resource claims, which are deleted when the pod completes) makes every later reconcile of
// the group fail and freezes its status at the last value.
func runC20InactivePodsCannotFail(c *Ctx) {
	f := c.Anchor("O17", "pkg/podgroupcontroller/controllers/metadata", "", "GetPodMetadata")
	if f == nil {
		return
	}
	selected := func(fs FactSet) bool {
		_, ok := fs.find(func(ft Fact) bool {
			return ft.Pol && (isCallNamed(ft.T, "isActivePod") || isCallNamed(ft.T, "isAllocatedPod") || strings.Contains(ft.T.String(), ".Status.Phase"))
		})
		return ok
	}
	n := 0
	for _, b := range f.Blocks {
		ret, ok := b.Instrs[len(b.Instrs)-1].(*ssa.Return)
		if !ok || len(ret.Results) != 2 {
			continue
		}
		if k, isK := ret.Results[1].(*ssa.Const); isK && k.IsNil() {
			continue
		}
		n++
		c.Check(c.Fx.allPathsSatisfy(ret, selected), "O17", "RET", funcKey(f)+": an error is returned only from a computation the pod's phase selects", instrPos(ret), "behind isActivePod / isAllocatedPod",
			"GetPodMetadata can fail for a pod that is neither active nor allocated (a lookup made before the phase tests): a finished pod whose claims were deleted makes every reconcile of its PodGroup fail, and the reported sums stay at their last value")
	}
	c.Floor("O17", "RET error exits of GetPodMetadata", n, 2)
}
