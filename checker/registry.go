package main

// REG engine: functions registered at a seam (ssn.AddXxxFn(f), handler.Funcs{...}, composite literals).

import (
	"go/types"
	"strings"

	"golang.org/x/tools/go/ssa"
)

// resolveFuncValue resolves a function-typed SSA value to the function it denotes:
// a function, a closure, a bound method value, or the closure returned by a factory call.
func (p *Prog) resolveFuncValue(v ssa.Value) *ssa.Function {
	switch x := v.(type) {
	case *ssa.Function:
		return p.unwrapBound(x)
	case *ssa.MakeClosure:
		return p.unwrapBound(x.Fn.(*ssa.Function))
	case *ssa.Call:
		if cal := x.Common().StaticCallee(); cal != nil {
			if rc := returnedClosure(cal); rc != nil {
				return rc
			}
		}
	case *ssa.ChangeType:
		return p.resolveFuncValue(x.X)
	case *ssa.MakeInterface:
		return p.resolveFuncValue(x.X)
	}
	return nil
}

func (p *Prog) unwrapBound(f *ssa.Function) *ssa.Function {
	if f == nil {
		return nil
	}
	if strings.HasPrefix(f.Synthetic, "bound method wrapper") || strings.HasSuffix(f.Name(), "$bound") {
		if obj, ok := f.Object().(*types.Func); ok {
			if fn := p.SSA.FuncValue(obj); fn != nil {
				return fn
			}
		}
	}
	return f
}

// Registered returns the functions passed as argument #argIdx (counting the receiver) to the
// registration method, over all non-test call sites, with their sites.
type Registration struct {
	Fn   *ssa.Function
	Site ssa.CallInstruction
}

func (p *Prog) Registered(reg *ssa.Function, argIdx int) ([]Registration, []ssa.CallInstruction) {
	var out []Registration
	var unresolved []ssa.CallInstruction
	for _, cs := range p.CallSites(reg) {
		if isTestdataOrMock(cs.Parent()) {
			continue
		}
		args := cs.Common().Args
		if argIdx >= len(args) {
			continue
		}
		if fn := p.resolveFuncValue(args[argIdx]); fn != nil {
			out = append(out, Registration{fn, cs})
		} else {
			unresolved = append(unresolved, cs)
		}
	}
	return out, unresolved
}
