package main

import (
	"encoding/json"
	"fmt"
	"go/token"
	"os"
	"path/filepath"
	"sort"
	"strings"
	"time"
)

// An obligation is keyed by (property, id, construct). The construct is a semantic key
// (package path + function/method + field/callee identity); positions appear only in messages.

type Status string

const (
	Held      Status = "held"
	Violated  Status = "VIOLATED"
	Undecided Status = "UNDECIDED"
)

type Obligation struct {
	ID        string `json:"id"`   // e.g. C01-O1
	Rule      string `json:"rule"` // engine / rule name
	Construct string `json:"construct"`
	Status    Status `json:"status"`
	Pos       string `json:"pos,omitempty"`
	Detail    string `json:"detail,omitempty"`
	Known     bool   `json:"known_finding,omitempty"`
}

type RuleStat struct {
	Instances int `json:"instances"`
	Floor     int `json:"floor"`
}

type Ctx struct {
	P          *Prog
	Fx         *Facts
	Prop       string
	Tier       string
	Obs        []Obligation
	Rules      map[string]*RuleStat
	FuncsSet   map[string]bool
	Sites      int
	Notes      []string
	NotDecided string
	Explain    string
}

func newCtx(p *Prog, prop, tier string) *Ctx {
	depth := 3
	if tier == "thorough" {
		depth = 6
	}
	return &Ctx{P: p, Fx: newFacts(p, depth), Prop: prop, Tier: tier, Rules: map[string]*RuleStat{}, FuncsSet: map[string]bool{}}
}

func (c *Ctx) add(id, rule, construct string, st Status, pos token.Pos, detail string) {
	o := Obligation{ID: c.Prop + "-" + id, Rule: rule, Construct: construct, Status: st, Detail: detail}
	if pos.IsValid() {
		o.Pos = c.P.Pos(pos)
	}
	c.Obs = append(c.Obs, o)
}

func (c *Ctx) Hold(id, rule, construct string, pos token.Pos, detail string) {
	c.add(id, rule, construct, Held, pos, detail)
}
func (c *Ctx) Viol(id, rule, construct string, pos token.Pos, detail string) {
	c.add(id, rule, construct, Violated, pos, detail)
}
func (c *Ctx) Undec(id, rule, construct string, pos token.Pos, detail string) {
	c.add(id, rule, construct, Undecided, pos, detail)
}

// Check records held/violated from a boolean.
func (c *Ctx) Check(ok bool, id, rule, construct string, pos token.Pos, okDetail, failDetail string) bool {
	if ok {
		c.Hold(id, rule, construct, pos, okDetail)
	} else {
		c.Viol(id, rule, construct, pos, failDetail)
	}
	return ok
}

// Floor asserts a minimal instance count for a rule (no vacuous passes).
func (c *Ctx) Floor(id, rule string, n, floor int) {
	rs := c.Rules[c.Prop+"-"+id+" "+rule]
	if rs == nil {
		rs = &RuleStat{}
		c.Rules[c.Prop+"-"+id+" "+rule] = rs
	}
	rs.Instances = n
	rs.Floor = floor
	// `floor` is the number of instances confirmed by reading the pinned tree. Merging duplicated code into one
	// helper legitimately lowers such a count, so the check is declared unable to decide only when the rule sees
	// nothing, or less than half of what it was confirmed on (it has then lost sight of the code it was written
	// for); the evidence always records both numbers.
	if n == 0 && floor > 0 || 2*n < floor {
		c.Undec(id, rule, "instance-floor", token.NoPos, fmt.Sprintf("rule matched %d instances, the pinned tree had %d: the rule no longer sees the code it was written for", n, floor))
	} else if n < floor {
		c.Notes = append(c.Notes, fmt.Sprintf("%s-%s %s: %d instances (pinned tree: %d)", c.Prop, id, rule, n, floor))
	}
}

func (c *Ctx) Analysed(fns ...string) {
	for _, f := range fns {
		c.FuncsSet[f] = true
	}
}

// Anchor resolves a function and records an undecided obligation when it is missing.
func (c *Ctx) Anchor(id string, pkgRel, recv, name string) *ssaFunc {
	f := c.P.Func(pkgRel, recv, name)
	key := pkgRel + "." + name
	if recv != "" {
		key = pkgRel + ".(" + recv + ")." + name
	}
	if f == nil || f.Blocks == nil {
		c.Undec(id, "ANCHOR", key, token.NoPos, "anchor function not found (renamed or removed): obligation cannot be decided")
		return nil
	}
	c.Analysed(funcKey(f))
	return f
}

// ---------------------------------------------------------------------------------------------

type KnownFinding struct {
	Property  string `json:"property"`
	ID        string `json:"obligation"`
	Construct string `json:"construct"`
	What      string `json:"what_fails"`
	Input     string `json:"input,omitempty"`
}

type KnownFile struct {
	Findings []KnownFinding `json:"known_findings"`
	// Outside: genuine defects of a property that lie in the part the static check does NOT decide (found by a
	// dynamic reproduction); they are printed on every run of that property so that the record is visible, and they
	// suppress nothing.
	Outside []KnownFinding `json:"known_findings_outside_decided_part"`
	Fixed   []string       `json:"fixed"`
}

func loadKnown(path string) KnownFile {
	var kf KnownFile
	b, err := os.ReadFile(path)
	if err != nil {
		return kf
	}
	_ = json.Unmarshal(b, &kf)
	return kf
}

type Evidence struct {
	PropertyID  string         `json:"property_id"`
	Tier        string         `json:"tier"`
	Seed        int            `json:"seed"`
	Level       string         `json:"level"`
	Coverage    map[string]any `json:"coverage"`
	Assumptions []string       `json:"assumptions"`
	WallS       float64        `json:"wall_s"`
	Violations  int            `json:"violations"`
}

var commonAssumptions = []string{
	"go/packages + go/types + go/ssa (x/tools v0.50.0, go1.26.8) represent /repo's source faithfully",
	"terms are memory-less: a guard fact about an access path is assumed to still hold at the guarded instruction",
	"the decided obligations are structural necessary conditions of the property; the behavioural property itself (all inputs/histories) is not decided",
	"tables of allowed writers/callers/idioms in checker/*.go were confirmed by reading the pinned tree",
}

// finish prints the report, writes the evidence, returns the exit code.
func (c *Ctx) finish(verifDir string, seed int, start time.Time) int {
	known := loadKnown(filepath.Join(verifDir, "known_findings.json"))
	sort.SliceStable(c.Obs, func(i, j int) bool {
		if c.Obs[i].ID != c.Obs[j].ID {
			return obLess(c.Obs[i].ID, c.Obs[j].ID)
		}
		return c.Obs[i].Construct < c.Obs[j].Construct
	})
	nViol, nUndec, nHeld, nKnown := 0, 0, 0, 0
	var viols []Obligation
	for i := range c.Obs {
		o := &c.Obs[i]
		switch o.Status {
		case Held:
			nHeld++
		case Undecided:
			nUndec++
			fmt.Printf("UNDECIDED %s [%s] %s — %s\n", o.ID, o.Rule, o.Construct, o.Detail)
		case Violated:
			for _, k := range known.Findings {
				if k.Property == c.Prop && k.ID == o.ID && k.Construct == o.Construct {
					o.Known = true
				}
			}
			if o.Known {
				nKnown++
				fmt.Printf("KNOWN-FINDING: property=%s %s [%s] %s — %s\n", c.Prop, o.ID, o.Construct, o.Pos, o.Detail)
			} else {
				nViol++
				viols = append(viols, *o)
				fmt.Printf("%s: [%s %s] %s — %s\n", o.Pos, o.ID, o.Rule, o.Construct, o.Detail)
			}
		}
	}
	for _, k := range known.Outside {
		if k.Property == c.Prop {
			fmt.Printf("KNOWN-FINDING: property=%s (outside the statically decided part) %s — input: %s\n", c.Prop, k.What, k.Input)
		}
	}
	total := len(c.Obs)
	var samples []any
	for i, o := range c.Obs {
		if i%maxInt(1, total/12) == 0 && len(samples) < 14 {
			samples = append(samples, o)
		}
	}
	if len(samples) == 0 {
		samples = append(samples, "no obligations generated")
	}
	var funcs []string
	for f := range c.FuncsSet {
		funcs = append(funcs, f)
	}
	sort.Strings(funcs)
	cov := map[string]any{
		"explanation":        c.Explain,
		"not_decided":        c.NotDecided,
		"obligations":        total,
		"discharged":         nHeld,
		"known_findings":     nKnown,
		"undecided":          nUndec,
		"rule_instances":     c.Rules,
		"functions_analysed": funcs,
		"packages":           len(c.P.Pkgs),
		"ssa_functions":      c.P.NFuncs,
		"samples":            samples,
		"exhaustive":         true,
		"checker_cmd":        fmt.Sprintf("./bin/check -p %s -tier %s", c.Prop, c.Tier),
		"trusted_base":       []string{"go/types", "go/ssa", "x/tools callgraph (CHA quick, VTA thorough)", "tables in /verif/checker/props_*.go"},
		"call_graph":         map[bool]string{true: "VTA over whole program", false: "CHA over repo packages"}[c.P.Whole],
		"notes":              c.Notes,
		"all_obligations":    c.Obs,
	}
	ev := Evidence{PropertyID: c.Prop, Tier: c.Tier, Seed: seed, Level: "other", Coverage: cov, Assumptions: commonAssumptions, WallS: time.Since(start).Seconds(), Violations: nViol}
	evDir := filepath.Join(verifDir, "evidence")
	_ = os.MkdirAll(evDir, 0o755)
	b, _ := json.MarshalIndent(ev, "", " ")
	if err := os.WriteFile(filepath.Join(evDir, c.Prop+".json"), b, 0o644); err != nil {
		fmt.Fprintf(os.Stderr, "cannot write evidence: %v\n", err)
		return 2
	}
	fmt.Printf("%s tier=%s: %d obligations, %d held, %d violated, %d known findings, %d undecided; %d functions analysed; %.1fs\n",
		c.Prop, c.Tier, total, nHeld, nViol, nKnown, nUndec, len(funcs), time.Since(start).Seconds())
	if nViol > 0 {
		vp := filepath.Join(evDir, c.Prop+".violation.json")
		vb, _ := json.MarshalIndent(viols, "", " ")
		_ = os.WriteFile(vp, vb, 0o644)
		fmt.Printf("VIOLATION property=%s replay=%s\n", c.Prop, vp)
		return 1
	}
	_ = os.Remove(filepath.Join(evDir, c.Prop+".violation.json"))
	if nUndec > 0 {
		return 2
	}
	if total == 0 {
		fmt.Println("UNDECIDED: no obligations were generated")
		return 2
	}
	return 0
}

func obLess(a, b string) bool {
	// Cxx-On natural order
	pa, pb := strings.SplitN(a, "-O", 2), strings.SplitN(b, "-O", 2)
	if len(pa) == 2 && len(pb) == 2 && pa[0] == pb[0] {
		var x, y int
		fmt.Sscanf(pa[1], "%d", &x)
		fmt.Sscanf(pb[1], "%d", &y)
		if x != y {
			return x < y
		}
	}
	return a < b
}

func maxInt(a, b int) int {
	if a > b {
		return a
	}
	return b
}
