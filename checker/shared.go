package main

import (
	"strings"
)

// Shared obligations. Some structural conditions are necessary for more than one property (the binder
// properties C11/C12/C17 overlap, so do the statement/accounting properties C01/C08/C13/C14). The condition is
// implemented once, in the property where it reads most naturally; the other property borrows it: the owning
// property's obligations are computed in a scratch context and those matching (owner obligation id, construct
// substring) are copied, with their verdicts, under the borrower's own obligation id.
var borrowing = map[string]bool{}

var borrowMemo = map[string]*Ctx{}

func borrow(c *Ctx, asID, owner, ownerOb, constructSub, why string) {
	if borrowing[c.Prop] || borrowing[owner] {
		return // no nesting
	}
	borrowing[c.Prop] = true
	defer delete(borrowing, c.Prop)
	// the owner's obligations are computed once per program and tier (several properties borrow from the same owner)
	key := owner + "|" + c.Tier
	sub := borrowMemo[key]
	if sub == nil || sub.P != c.P {
		sub = newCtx(c.P, owner, c.Tier)
		sub.Fx = c.Fx
		props[owner].run(sub)
		borrowMemo[key] = sub
	}
	n := 0
	for _, o := range sub.Obs {
		if o.ID != owner+"-"+ownerOb || !strings.Contains(o.Construct, constructSub) {
			continue
		}
		n++
		o.Construct = o.Construct + " [shared with " + owner + "-" + ownerOb + "]"
		if o.Status == Held {
			o.Detail = why + "; " + o.Detail
		}
		o.ID = c.Prop + "-" + asID
		c.Obs = append(c.Obs, o)
	}
	for f := range sub.FuncsSet {
		if strings.Contains(f, constructSub) {
			c.FuncsSet[f] = true
		}
	}
	c.Floor(asID, "SHARED "+owner+"-"+ownerOb+" "+constructSub, n, 1)
}
