package main

// Terms: memory-less access-path descriptions of SSA values, comparable across functions.
// A term ignores mutation between the point a value is read and the point a fact about it is
// used; this is the stated imprecision of the DOM/RET engines (see DESIGN.md §3).

import (
	"fmt"
	"go/constant"
	"go/token"
	"go/types"
	"strings"

	"golang.org/x/tools/go/ssa"
)

type Term struct {
	Op   string // param free const global field call lookup index bin un extract phi alloc closure func load typeassert slice unk
	Name string
	Args []*Term
	Fn   *ssa.Function // call: static callee / closure: fn
	M    *types.Func   // call: invoked interface method
	V    ssa.Value     // originating value (identity for opaque terms)
	s    string
}

func (t *Term) String() string {
	if t == nil {
		return "_"
	}
	if t.s != "" {
		return t.s
	}
	var sb strings.Builder
	switch t.Op {
	case "param", "free", "const", "global", "phi", "alloc", "unk", "func":
		sb.WriteString(t.Op + ":" + t.Name)
	case "field":
		sb.WriteString(t.Args[0].String() + "." + t.Name)
	case "bin":
		sb.WriteString("(" + t.Args[0].String() + " " + t.Name + " " + t.Args[1].String() + ")")
	case "un":
		sb.WriteString(t.Name + t.Args[0].String())
	default:
		sb.WriteString(t.Op)
		if t.Name != "" {
			sb.WriteString("[" + t.Name + "]")
		}
		sb.WriteString("(")
		for i, a := range t.Args {
			if i > 0 {
				sb.WriteString(", ")
			}
			sb.WriteString(a.String())
		}
		sb.WriteString(")")
	}
	t.s = sb.String()
	return t.s
}

func mk(op, name string, args ...*Term) *Term { return &Term{Op: op, Name: name, Args: args} }

type termer struct {
	memo   map[ssa.Value]*Term
	truncs int // how often the depth bound cut a term (a term built without a cut is exact at any depth)
}

func newTermer() *termer { return &termer{memo: map[ssa.Value]*Term{}} }

var globalTermer = newTermer()

func termOf(v ssa.Value) *Term { return globalTermer.term(v, 0) }

const maxTermDepth = 14

func (tm *termer) term(v ssa.Value, d int) *Term {
	if v == nil {
		return mk("unk", "nil")
	}
	if t, ok := tm.memo[v]; ok {
		return t
	}
	if d > maxTermDepth {
		tm.truncs++
		return opaque("unk", v)
	}
	before := tm.truncs
	t := tm.build(v, d)
	t.V = v
	// memoise only what does not depend on the depth at which the value happened to be reached first: a term cut by
	// the depth bound is kept only when it was built from the top (d == 0), so results do not depend on query order
	if tm.truncs == before || d == 0 {
		tm.memo[v] = t
	}
	return t
}

func opaque(op string, v ssa.Value) *Term {
	fn := ""
	if v.Parent() != nil {
		fn = funcKey(v.Parent())
	}
	return &Term{Op: op, Name: fmt.Sprintf("%s@%s", v.Name(), fn), V: v}
}

func constString(c *ssa.Const) string {
	if c.Value == nil {
		return "nil"
	}
	if c.Value.Kind() == constant.String {
		return fmt.Sprintf("%q", constant.StringVal(c.Value))
	}
	return c.Value.ExactString()
}

func (tm *termer) build(v ssa.Value, d int) *Term {
	switch x := v.(type) {
	case *ssa.Parameter:
		idx := -1
		for i, p := range x.Parent().Params {
			if p == x {
				idx = i
			}
		}
		return mk("param", fmt.Sprintf("%d:%s", idx, x.Name()))
	case *ssa.FreeVar:
		return mk("free", x.Name())
	case *ssa.Const:
		return mk("const", constString(x))
	case *ssa.Global:
		return mk("global", relPkg(x.Pkg.Pkg.Path())+"."+x.Name())
	case *ssa.Function:
		return &Term{Op: "func", Name: funcKey(x), Fn: x}
	case *ssa.MakeClosure:
		fn := x.Fn.(*ssa.Function)
		return &Term{Op: "closure", Name: funcKey(fn), Fn: fn}
	case *ssa.FieldAddr:
		f := fieldOfAddr(x)
		// a local copy of a struct that is only read (q := cfg.Resources.Memory; … q.Quota …) is the value it was
		// copied from
		if a, ok := x.X.(*ssa.Alloc); ok {
			if sv := onlyWholeStore(a); sv != nil {
				return mk("field", f.Name(), tm.term(sv, d+1))
			}
		}
		return mk("field", f.Name(), tm.term(x.X, d+1))
	case *ssa.Field:
		f := fieldOfVal(x)
		return mk("field", f.Name(), tm.term(x.X, d+1))
	case *ssa.IndexAddr:
		return mk("index", "", tm.term(x.X, d+1), tm.term(x.Index, d+1))
	case *ssa.Index:
		return mk("index", "", tm.term(x.X, d+1), tm.term(x.Index, d+1))
	case *ssa.Lookup:
		return mk("lookup", "", tm.term(x.X, d+1), tm.term(x.Index, d+1))
	case *ssa.Extract:
		return mk("extract", fmt.Sprint(x.Index), tm.term(x.Tuple, d+1))
	case *ssa.BinOp:
		return mk("bin", x.Op.String(), tm.term(x.X, d+1), tm.term(x.Y, d+1))
	case *ssa.UnOp:
		switch x.Op {
		case token.MUL:
			switch a := x.X.(type) {
			case *ssa.FieldAddr, *ssa.IndexAddr, *ssa.Global, *ssa.FreeVar:
				return tm.term(a, d+1)
			case *ssa.Alloc:
				if sv := singleStore(a); sv != nil {
					return tm.term(sv, d+1)
				}
				return mk("load", "", tm.term(a, d+1))
			}
			return mk("load", "", tm.term(x.X, d+1))
		case token.NOT:
			return mk("un", "!", tm.term(x.X, d+1))
		default:
			return mk("un", x.Op.String(), tm.term(x.X, d+1))
		}
	case *ssa.ChangeType:
		return tm.term(x.X, d+1)
	case *ssa.Convert:
		return tm.term(x.X, d+1)
	case *ssa.ChangeInterface:
		return tm.term(x.X, d+1)
	case *ssa.MakeInterface:
		return tm.term(x.X, d+1)
	case *ssa.TypeAssert:
		return mk("typeassert", typeKey(x.AssertedType), tm.term(x.X, d+1))
	case *ssa.Slice:
		return mk("slice", "", tm.term(x.X, d+1))
	case *ssa.Call:
		return tm.callTerm(x, d)
	case *ssa.Phi:
		// phi of identical terms collapses
		var first *Term
		same := true
		for _, e := range x.Edges {
			if e == v {
				continue
			}
			if _, isPhi := e.(*ssa.Phi); isPhi {
				same = false
				break
			}
			t := tm.term(e, d+1)
			if first == nil {
				first = t
			} else if first.String() != t.String() {
				same = false
				break
			}
		}
		if same && first != nil {
			return first
		}
		return opaque("phi", v)
	case *ssa.Alloc:
		return opaque("alloc", v)
	}
	return opaque("unk", v)
}

// singleStore: if the alloc has exactly one Store (anywhere in its function or closures
// that capture it are not inspected: a captured alloc is left opaque) return the stored value.
func singleStore(a *ssa.Alloc) ssa.Value {
	var stored ssa.Value
	n := 0
	for _, r := range *a.Referrers() {
		switch in := r.(type) {
		case *ssa.Store:
			if in.Addr == a {
				n++
				stored = in.Val
			} else {
				return nil // address escapes into memory
			}
		case *ssa.UnOp:
			// load
		case *ssa.MakeClosure:
			// captured by reference: the closure may store; check the closure body
			fn := in.Fn.(*ssa.Function)
			for i, b := range in.Bindings {
				if b == a && closureStoresFreeVar(fn, fn.FreeVars[i], 0) {
					return nil
				}
			}
		case *ssa.DebugRef:
		default:
			return nil // address taken / passed to a call / field addr
		}
	}
	if n == 1 {
		return stored
	}
	return nil
}

func closureStoresFreeVar(fn *ssa.Function, fv *ssa.FreeVar, depth int) bool {
	if depth > 3 {
		return true
	}
	for _, r := range *fv.Referrers() {
		switch in := r.(type) {
		case *ssa.Store:
			if in.Addr == fv {
				return true
			}
		case *ssa.UnOp, *ssa.DebugRef:
		case *ssa.MakeClosure:
			inner := in.Fn.(*ssa.Function)
			for i, b := range in.Bindings {
				if b == fv && closureStoresFreeVar(inner, inner.FreeVars[i], depth+1) {
					return true
				}
			}
		default:
			return true
		}
	}
	return false
}

func (tm *termer) callTerm(c *ssa.Call, d int) *Term {
	com := c.Common()
	var args []*Term
	t := &Term{Op: "call"}
	if com.IsInvoke() {
		t.M = com.Method
		t.Name = methodKey(com.Method)
		args = append(args, tm.term(com.Value, d+1))
	} else if fn := com.StaticCallee(); fn != nil {
		t.Fn = fn
		t.Name = funcKey(fn)
	} else if b, ok := com.Value.(*ssa.Builtin); ok {
		t.Name = "builtin." + b.Name()
	} else {
		t.Name = "dyn"
		args = append(args, tm.term(com.Value, d+1))
	}
	for _, a := range com.Args {
		args = append(args, tm.term(a, d+1))
	}
	t.Args = args
	return t
}

func methodKey(m *types.Func) string {
	sig := m.Type().(*types.Signature)
	if r := sig.Recv(); r != nil {
		return typeKey(r.Type()) + "." + m.Name()
	}
	return m.Name()
}

// subst replaces param terms by the given actuals (index → term).
func (t *Term) subst(actuals []*Term) *Term {
	if t == nil {
		return nil
	}
	if t.Op == "param" {
		var idx int
		fmt.Sscanf(t.Name, "%d:", &idx)
		if idx >= 0 && idx < len(actuals) && actuals[idx] != nil {
			return actuals[idx]
		}
		return t
	}
	if len(t.Args) == 0 {
		return t
	}
	changed := false
	na := make([]*Term, len(t.Args))
	for i, a := range t.Args {
		na[i] = a.subst(actuals)
		if na[i] != a {
			changed = true
		}
	}
	if !changed {
		return t
	}
	return &Term{Op: t.Op, Name: t.Name, Args: na, Fn: t.Fn, M: t.M, V: t.V}
}

// walk visits the term tree.
func (t *Term) walk(f func(*Term) bool) {
	if t == nil || !f(t) {
		return
	}
	for _, a := range t.Args {
		a.walk(f)
	}
}

func (t *Term) contains(pred func(*Term) bool) bool {
	found := false
	t.walk(func(x *Term) bool {
		if pred(x) {
			found = true
		}
		return !found
	})
	return found
}

// isCallTo reports whether the term is a call whose static callee (or invoked method) matches.
func (t *Term) isCallTo(fn *ssa.Function) bool {
	return t != nil && t.Op == "call" && t.Fn != nil && fn != nil && sameFunc(t.Fn, fn)
}

func (t *Term) isInvokeOf(name string) bool {
	return t != nil && t.Op == "call" && t.M != nil && t.M.Name() == name
}

func (t *Term) isNilConst() bool { return t != nil && t.Op == "const" && t.Name == "nil" }

// lastField returns the name of the outermost field selection, "" otherwise.
func (t *Term) lastField() string {
	if t != nil && t.Op == "field" {
		return t.Name
	}
	return ""
}

func fmtSscan(name string, idx *int) (int, error) { return fmt.Sscanf(name, "%d:", idx) }

// paramIndex returns the parameter index of a param term, -1 otherwise.
func (t *Term) paramIndex() int {
	if t == nil || t.Op != "param" {
		return -1
	}
	var idx int
	if _, err := fmtSscan(t.Name, &idx); err != nil {
		return -1
	}
	return idx
}

// rootedInParams reports whether every leaf of the term is a param, const, global or func (a load through a
// parameter-rooted pointer is as memory-less as a field read and is accepted like one).
func (t *Term) rootedInParams() bool {
	ok := true
	t.walk(func(x *Term) bool {
		switch x.Op {
		case "phi", "alloc", "unk", "free":
			ok = false
		}
		return ok
	})
	return ok
}
