package main

// WALK engine: loops that follow a link field through a map ("for q, ok := m[id]; ok; q, ok = m[q.Parent]")
// and self-recursive functions that descend along a link collection.

import (
	"go/types"
	"strings"

	"golang.org/x/tools/go/ssa"
)

type LinkWalk struct {
	Fn     *ssa.Function
	Header *ssa.BasicBlock
	Phi    *ssa.Phi   // the walked element (or the tuple it is extracted from)
	Lookup *ssa.Lookup // the lookup on the back edge
	Map    *Term
	Link   string // link field name
}

// findLinkWalks detects loops whose element is re-bound on the back edge from a map lookup keyed by a
// field (one of linkFields) of the current element. Recognised through SSA, independent of the source form.
func findLinkWalks(fn *ssa.Function, linkFields map[string]bool) []LinkWalk {
	var out []LinkWalk
	for _, b := range fn.Blocks {
		for _, in := range b.Instrs {
			phi, ok := in.(*ssa.Phi)
			if !ok {
				break
			}
			for i, e := range phi.Edges {
				pred := b.Preds[i]
				if !b.Dominates(pred) {
					continue // not a back edge
				}
				// key-carried form: the loop variable is the key; on the back edge it becomes the link field of the
				// element that was looked up under the current key
				if fld, base := fieldLoad(e); fld != nil && linkFields[fld.Name()] {
					if lk := lookupFeeding(base, 6); lk != nil && stripConv(lk.Index) == ssa.Value(phi) {
						out = append(out, LinkWalk{Fn: fn, Header: b, Phi: phi, Lookup: lk, Map: termOf(lk.X), Link: fld.Name()})
						continue
					}
				}
				// e derives from a Lookup (directly, or through Extract of a comma-ok lookup)
				lk := lookupOf(e)
				if lk == nil {
					continue
				}
				// key: field <link> of (something derived from) this phi or a sibling phi of the same header
				key := lk.Index
				fld, base := fieldLoad(key)
				if fld == nil || !linkFields[fld.Name()] {
					continue
				}
				if !derivesFromHeaderPhi(base, b) {
					continue
				}
				out = append(out, LinkWalk{Fn: fn, Header: b, Phi: phi, Lookup: lk, Map: termOf(lk.X), Link: fld.Name()})
			}
		}
	}
	// de-duplicate (the element and the ok flag are two phis fed by the same lookup)
	seen := map[*ssa.Lookup]bool{}
	var ded []LinkWalk
	for _, w := range out {
		if !seen[w.Lookup] {
			seen[w.Lookup] = true
			ded = append(ded, w)
		}
	}
	return ded
}

// lookupFeeding: the map lookup a (possibly extracted / loaded) element value comes from.
func lookupFeeding(v ssa.Value, depth int) *ssa.Lookup {
	for d := 0; d < depth && v != nil; d++ {
		switch x := v.(type) {
		case *ssa.Lookup:
			return x
		case *ssa.Extract:
			v = x.Tuple
		case *ssa.UnOp:
			v = x.X
		case *ssa.FieldAddr:
			v = x.X
		case *ssa.Field:
			v = x.X
		default:
			return nil
		}
	}
	return nil
}

func lookupOf(v ssa.Value) *ssa.Lookup {
	switch x := v.(type) {
	case *ssa.Lookup:
		return x
	case *ssa.Extract:
		return lookupOf(x.Tuple)
	}
	return nil
}

// fieldLoad: v is a load of field f of base (value or address form).
func fieldLoad(v ssa.Value) (*types.Var, ssa.Value) {
	switch x := v.(type) {
	case *ssa.UnOp:
		if fa, ok := x.X.(*ssa.FieldAddr); ok {
			return fieldOfAddr(fa), fa.X
		}
	case *ssa.Field:
		return fieldOfVal(x), x.X
	case *ssa.ChangeType:
		return fieldLoad(x.X)
	case *ssa.Convert:
		return fieldLoad(x.X)
	}
	return nil, nil
}

func derivesFromHeaderPhi(v ssa.Value, header *ssa.BasicBlock) bool {
	for d := 0; d < 6 && v != nil; d++ {
		switch x := v.(type) {
		case *ssa.Phi:
			return x.Block() == header
		case *ssa.Extract:
			v = x.Tuple
		case *ssa.UnOp:
			v = x.X
		case *ssa.FieldAddr:
			v = x.X
		case *ssa.Field:
			v = x.X
		default:
			return false
		}
	}
	return false
}

// selfRecursions: calls of fn to itself (directly, or through its closures).
func selfRecursions(fn *ssa.Function) []ssa.CallInstruction {
	var out []ssa.CallInstruction
	var visit func(f *ssa.Function)
	visit = func(f *ssa.Function) {
		for _, b := range f.Blocks {
			for _, in := range b.Instrs {
				if c, ok := in.(ssa.CallInstruction); ok {
					if cal := calleeOf(c); cal != nil && sameFunc(cal, fn) {
						out = append(out, c)
					}
				}
			}
		}
		for _, an := range f.AnonFuncs {
			visit(an)
		}
	}
	visit(fn)
	return out
}

func hasRangeOverGlobal(fn *ssa.Function, globalSuffix string) bool {
	for _, b := range fn.Blocks {
		for _, in := range b.Instrs {
			// range over a slice is lowered to len+index; detect loads of the global
			if u, ok := in.(*ssa.UnOp); ok {
				if g, ok := u.X.(*ssa.Global); ok && strings.HasSuffix(g.Name(), globalSuffix) {
					return true
				}
			}
		}
	}
	return false
}

// walkBody: the code that runs once per element of a link walk — the function containing the walk itself, or a
// callback that a walking helper invokes on every iteration.
type walkBody struct {
	Fn   *ssa.Function      // where the per-element code lives
	Walk LinkWalk           // the walk (in Fn, or in the helper)
	MC   *ssa.MakeClosure   // the callback's creation site (nil for a direct walk)
	Call ssa.CallInstruction // the per-iteration invocation of the callback inside the helper (nil for a direct walk)
}

// walkBodies finds the link walks that fn performs: loops in fn, and loops of module helpers to which fn hands a
// callback that the helper invokes in every iteration of its walk.
func (p *Prog) walkBodies(fn *ssa.Function, linkFields map[string]bool) []walkBody {
	var out []walkBody
	for _, w := range findLinkWalks(fn, linkFields) {
		out = append(out, walkBody{Fn: fn, Walk: w})
	}
	for _, b := range fn.Blocks {
		for _, in := range b.Instrs {
			mc, ok := in.(*ssa.MakeClosure)
			if !ok {
				continue
			}
			for _, tc := range p.callsThroughValueVia(mc, nil, 2) {
				if tc.Via == nil {
					continue
				}
				helper := tc.Call.Parent()
				for _, w := range findLinkWalks(helper, linkFields) {
					if !naturalLoop(w.Header)[tc.Call.Block()] {
						continue
					}
					if ok, _ := everyIterationPasses(tc.Call, func(x ssa.Instruction) bool { return x == ssa.Instruction(tc.Call) }, nil); !ok {
						continue
					}
					out = append(out, walkBody{Fn: mc.Fn.(*ssa.Function), Walk: w, MC: mc, Call: tc.Call})
				}
			}
		}
	}
	return out
}
