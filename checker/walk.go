package main

// WALK engine: loops that follow a link field through a map ("for q, ok := m[id]; ok; q, ok = m[q.Parent]")
// and self-recursive functions that descend along a link collection.

import (
	"go/types"
	"strings"

	"golang.org/x/tools/go/ssa"
)

type LinkWalk struct {
	Fn     *ssa.Function
	Header *ssa.BasicBlock
	Phi    *ssa.Phi    // the walked element (or the tuple it is extracted from)
	Lookup *ssa.Lookup // the lookup on the back edge
	Map    *Term
	Link   string // link field name
}

// findLinkWalks detects loops whose element is re-bound on the back edge from a map lookup keyed by a
// field (one of linkFields) of the current element. Recognised through SSA, independent of the source form.
func findLinkWalks(fn *ssa.Function, linkFields map[string]bool) []LinkWalk {
	var out []LinkWalk
	for _, b := range fn.Blocks {
		for _, in := range b.Instrs {
			phi, ok := in.(*ssa.Phi)
			if !ok {
				break
			}
			for i, e := range phi.Edges {
				pred := b.Preds[i]
				if !b.Dominates(pred) {
					continue // not a back edge
				}
				// key-carried form: the loop variable is the key; on the back edge it becomes the link field of the
				// element that was looked up under the current key
				if fld, base := fieldLoad(e); fld != nil && linkFields[fld.Name()] {
					if lk := lookupFeeding(base, 6); lk != nil && stripConv(lk.Index) == ssa.Value(phi) {
						out = append(out, LinkWalk{Fn: fn, Header: b, Phi: phi, Lookup: lk, Map: termOf(lk.X), Link: fld.Name()})
						continue
					}
				}
				// e derives from a Lookup (directly, or through Extract of a comma-ok lookup)
				lk := lookupOf(e)
				if lk == nil {
					continue
				}
				// key: field <link> of (something derived from) this phi or a sibling phi of the same header
				key := lk.Index
				fld, base := fieldLoad(key)
				if fld == nil || !linkFields[fld.Name()] {
					continue
				}
				if !derivesFromHeaderPhi(base, b) {
					continue
				}
				out = append(out, LinkWalk{Fn: fn, Header: b, Phi: phi, Lookup: lk, Map: termOf(lk.X), Link: fld.Name()})
			}
		}
	}
	// de-duplicate (the element and the ok flag are two phis fed by the same lookup)
	seen := map[*ssa.Lookup]bool{}
	var ded []LinkWalk
	for _, w := range out {
		if !seen[w.Lookup] {
			seen[w.Lookup] = true
			ded = append(ded, w)
		}
	}
	return ded
}

// lookupFeeding: the map lookup a (possibly extracted / loaded) element value comes from.
func lookupFeeding(v ssa.Value, depth int) *ssa.Lookup {
	for d := 0; d < depth && v != nil; d++ {
		switch x := v.(type) {
		case *ssa.Lookup:
			return x
		case *ssa.Extract:
			v = x.Tuple
		case *ssa.UnOp:
			v = x.X
		case *ssa.FieldAddr:
			v = x.X
		case *ssa.Field:
			v = x.X
		default:
			return nil
		}
	}
	return nil
}

func lookupOf(v ssa.Value) *ssa.Lookup {
	switch x := v.(type) {
	case *ssa.Lookup:
		return x
	case *ssa.Extract:
		return lookupOf(x.Tuple)
	}
	return nil
}

// fieldLoad: v is a load of field f of base (value or address form).
func fieldLoad(v ssa.Value) (*types.Var, ssa.Value) {
	switch x := v.(type) {
	case *ssa.UnOp:
		if fa, ok := x.X.(*ssa.FieldAddr); ok {
			return fieldOfAddr(fa), fa.X
		}
	case *ssa.Field:
		return fieldOfVal(x), x.X
	case *ssa.ChangeType:
		return fieldLoad(x.X)
	case *ssa.Convert:
		return fieldLoad(x.X)
	}
	return nil, nil
}

func derivesFromHeaderPhi(v ssa.Value, header *ssa.BasicBlock) bool {
	for d := 0; d < 6 && v != nil; d++ {
		switch x := v.(type) {
		case *ssa.Phi:
			return x.Block() == header
		case *ssa.Extract:
			v = x.Tuple
		case *ssa.UnOp:
			v = x.X
		case *ssa.FieldAddr:
			v = x.X
		case *ssa.Field:
			v = x.X
		default:
			return false
		}
	}
	return false
}

// selfRecursions: calls of fn to itself (directly, or through its closures).
func selfRecursions(fn *ssa.Function) []ssa.CallInstruction {
	var out []ssa.CallInstruction
	var visit func(f *ssa.Function)
	visit = func(f *ssa.Function) {
		for _, b := range f.Blocks {
			for _, in := range b.Instrs {
				if c, ok := in.(ssa.CallInstruction); ok {
					if cal := calleeOf(c); cal != nil && sameFunc(cal, fn) {
						out = append(out, c)
					}
				}
			}
		}
		for _, an := range f.AnonFuncs {
			visit(an)
		}
	}
	visit(fn)
	return out
}

func hasRangeOverGlobal(fn *ssa.Function, globalSuffix string) bool {
	for _, b := range fn.Blocks {
		for _, in := range b.Instrs {
			// range over a slice is lowered to len+index; detect loads of the global
			if u, ok := in.(*ssa.UnOp); ok {
				if g, ok := u.X.(*ssa.Global); ok && strings.HasSuffix(g.Name(), globalSuffix) {
					return true
				}
			}
		}
	}
	return false
}

// walkBody: the code that runs once per element of a link walk — the function containing the walk itself, or a
// callback that a walking helper invokes on every iteration.
type walkBody struct {
	Fn   *ssa.Function       // where the per-element code lives
	Walk LinkWalk            // the walk (in Fn, or in the helper)
	MC   *ssa.MakeClosure    // the callback's creation site (nil for a direct walk)
	Call ssa.CallInstruction // the per-iteration invocation of the callback inside the helper (nil for a direct walk)
}

// walkBodies finds the link walks that fn performs: loops in fn, and loops of module helpers to which fn hands a
// callback that the helper invokes in every iteration of its walk.
func (p *Prog) walkBodies(fn *ssa.Function, linkFields map[string]bool) []walkBody {
	var out []walkBody
	for _, w := range findLinkWalks(fn, linkFields) {
		out = append(out, walkBody{Fn: fn, Walk: w})
	}
	for _, b := range fn.Blocks {
		for _, in := range b.Instrs {
			mc, ok := in.(*ssa.MakeClosure)
			if !ok {
				continue
			}
			for _, tc := range p.callsThroughValueVia(mc, nil, 2) {
				if tc.Via == nil {
					continue
				}
				helper := tc.Call.Parent()
				for _, w := range findLinkWalks(helper, linkFields) {
					if !naturalLoop(w.Header)[tc.Call.Block()] {
						continue
					}
					if ok, _ := everyIterationPasses(tc.Call, func(x ssa.Instruction) bool { return x == ssa.Instruction(tc.Call) }, nil); !ok {
						continue
					}
					out = append(out, walkBody{Fn: mc.Fn.(*ssa.Function), Walk: w, MC: mc, Call: tc.Call})
				}
			}
		}
	}
	// iterator form (range-over-func): `for q := range helper(id) { body }` — the helper returns the walking function
	// and the loop body is a closure handed to it as its yield parameter
	for _, b := range fn.Blocks {
		for _, in := range b.Instrs {
			call, ok := in.(*ssa.Call)
			if !ok {
				continue
			}
			hc, ok := call.Call.Value.(*ssa.Call)
			if !ok || calleeOf(hc) == nil || !hasModPrefix(calleeOf(hc)) {
				continue
			}
			var mc *ssa.MakeClosure
			for _, a := range call.Call.Args {
				if m, isMC := a.(*ssa.MakeClosure); isMC {
					mc = m
				}
			}
			walker := returnedClosure(calleeOf(hc))
			if mc == nil || walker == nil || len(walker.Params) == 0 {
				continue
			}
			for _, w := range findLinkWalks(walker, linkFields) {
				for _, yin := range instrsIn(walker, func(x ssa.Instruction) bool {
					yc, isCall := x.(*ssa.Call)
					return isCall && yc.Call.Value == ssa.Value(walker.Params[0])
				}) {
					if !naturalLoop(w.Header)[yin.Block()] {
						continue
					}
					if ok, _ := everyIterationPasses(yin, func(x ssa.Instruction) bool { return x == yin }, nil); !ok {
						continue
					}
					out = append(out, walkBody{Fn: mc.Fn.(*ssa.Function), Walk: w, MC: mc, Call: yin.(ssa.CallInstruction)})
				}
			}
		}
	}
	return out
}

// treeDescent: fn, a method of tree node type *T, visits the whole subtree below its receiver — it calls itself
// (directly, through a closure, or through a helper it calls) on an element of a []*T collection obtained from the
// receiver, or it runs a work list that is extended with such collections. Returns a description of what was found.
func (p *Prog) treeDescent(fn *ssa.Function) (bool, string) {
	if fn == nil || fn.Signature.Recv() == nil {
		return false, "not a method"
	}
	recvT := fn.Signature.Recv().Type()
	// candidates: fn itself and the helpers it hands its receiver to (the recursion may live in a helper)
	cands := []*ssa.Function{fn}
	for _, h := range p.deepFind(fn, func(in ssa.Instruction) bool {
		c, ok := in.(ssa.CallInstruction)
		if !ok || calleeOf(c) == nil || !hasModPrefix(calleeOf(c)) || len(c.Common().Args) == 0 {
			return false
		}
		return types.Identical(c.Common().Args[0].Type(), recvT)
	}, 2) {
		cands = append(cands, calleeOf(h.In.(ssa.CallInstruction)))
	}
	for _, cand := range cands {
		for _, h := range p.deepFind(cand, func(in ssa.Instruction) bool {
			c, ok := in.(ssa.CallInstruction)
			return ok && calleeOf(c) != nil && sameFunc(calleeOf(c), cand)
		}, 2) {
			args := h.In.(ssa.CallInstruction).Common().Args
			if len(args) == 0 || !types.Identical(args[0].Type(), recvT) {
				continue
			}
			t := liftTerm(termOf(args[0]), h.Chain)
			elem := t.contains(func(x *Term) bool { return x.Op == "index" || x.Op == "elem" || x.Op == "extract" })
			if elem && (rootParam(t) == 0 || len(h.Chain) > 0) {
				return true, "recursive call of " + cand.Name() + " on " + trunc(t.String(), 100)
			}
			if _, isPhi := args[0].(*ssa.Phi); isPhi {
				return true, "recursive call on a loop-carried node"
			}
		}
	}
	// work list: append(list, node.children...) inside a loop
	for _, h := range p.deepFind(fn, func(in ssa.Instruction) bool {
		c, ok := in.(*ssa.Call)
		if !ok {
			return false
		}
		b, isB := c.Call.Value.(*ssa.Builtin)
		if !isB || b.Name() != "append" || len(c.Call.Args) != 2 {
			return false
		}
		sl, ok := c.Call.Args[1].Type().Underlying().(*types.Slice)
		return ok && types.Identical(sl.Elem(), recvT) && loopHeaderOf(c.Block()) != nil
	}, 1) {
		t := termOf(h.In.(*ssa.Call).Call.Args[1])
		if rootParam(t) != 0 || t.contains(func(x *Term) bool { return x.Op == "index" || x.Op == "phi" }) {
			return true, "work list extended with " + trunc(t.String(), 100)
		}
	}
	return false, "no recursive call on a child node and no work list"
}
