package main

// CALLERS (who-may-write): functions that mutate a struct field — direct stores, map updates /
// deletes on the map held in the field, and mutating method calls (Add/Sub/...) on the field value.

import (
	"go/types"
	"sort"
	"strings"

	"golang.org/x/tools/go/ssa"
)

var mutatingMethods = map[string]bool{
	"Add": true, "Sub": true, "AddGPUs": true, "SubGPUs": true, "SetGPUs": true,
	"AddResourceRequirements": true, "SubResourceRequirements": true, "Set": true, "SetMax": true,
	"SetMaxResource": true, "FromVector": true, "SetDraGpus": true, "ClearMigResources": true,
}

// fieldOfValue: if v is (a load of) a field address / field value, return the field.
func fieldOfValue(v ssa.Value) *types.Var {
	switch x := v.(type) {
	case *ssa.FieldAddr:
		return fieldOfAddr(x)
	case *ssa.Field:
		return fieldOfVal(x)
	case *ssa.UnOp:
		return fieldOfValue(x.X)
	case *ssa.ChangeType:
		return fieldOfValue(x.X)
	}
	return nil
}

// writersOf returns the functions that mutate any of the given fields, with one position each.
func (p *Prog) writersOf(fields map[*types.Var]bool) map[*ssa.Function][]ssa.Instruction {
	out := map[*ssa.Function][]ssa.Instruction{}
	for _, f := range p.AllFuncs {
		for _, b := range f.Blocks {
			for _, in := range b.Instrs {
				hit := false
				switch x := in.(type) {
				case *ssa.Store:
					if fa, ok := x.Addr.(*ssa.FieldAddr); ok && fields[fieldOfAddr(fa)] {
						hit = true
					}
					// store through an index of a slice/array held in the field (vector element)
					if ia, ok := x.Addr.(*ssa.IndexAddr); ok {
						if fv := fieldOfValue(ia.X); fv != nil && fields[fv] {
							hit = true
						}
					}
				case *ssa.MapUpdate:
					if fv := fieldOfValue(x.Map); fv != nil && fields[fv] {
						hit = true
					}
				case ssa.CallInstruction:
					com := x.Common()
					if bi, ok := com.Value.(*ssa.Builtin); ok && bi.Name() == "delete" {
						if fv := fieldOfValue(com.Args[0]); fv != nil && fields[fv] {
							hit = true
						}
					}
					if cal := com.StaticCallee(); cal != nil && cal.Signature.Recv() != nil && mutatingMethods[cal.Name()] && len(com.Args) > 0 {
						if fv := fieldOfValue(com.Args[0]); fv != nil && fields[fv] {
							hit = true
						}
					}
				}
				if hit {
					out[f] = append(out[f], in)
				}
			}
		}
	}
	return out
}

func (p *Prog) fieldVars(pkgRel, typ string, names ...string) map[*types.Var]bool {
	out := map[*types.Var]bool{}
	tn := p.TypeObj(pkgRel, typ)
	if tn == nil {
		return out
	}
	for _, f := range structFields(tn.Type()) {
		for _, n := range names {
			if f.Name() == n {
				out[f] = true
			}
		}
	}
	return out
}

// checkWriters compares the writers of the fields with an allow-list (function key → reason).
func checkWriters(c *Ctx, id, what string, fields map[*types.Var]bool, nfields int, allowed map[string]string) {
	if len(fields) != nfields {
		c.Undec(id, "CALLERS", what, 0, "accounting fields not found (renamed?): expected "+strings.Repeat("#", nfields))
		return
	}
	ws := c.P.writersOf(fields)
	var keys []string
	byKey := map[string]*ssa.Function{}
	for f := range ws {
		if isTestdataOrMock(f) {
			continue
		}
		k := funcKey(f)
		keys = append(keys, k)
		byKey[k] = f
	}
	sort.Strings(keys)
	for _, k := range keys {
		f := byKey[k]
		c.Analysed(k)
		reason, ok := allowed[k]
		// closures inherit the permission of their enclosing function
		if !ok {
			reason, ok = allowed[funcKey(rootFunc(f))]
		}
		// an unexported helper inherits the permission of its callers when every caller is a permitted writer
		// (code moved out of a permitted function stays inside the accounting API)
		if !ok {
			if r, inherited := allCallersAllowed(c.P, rootFunc(f), allowed, 2); inherited {
				reason, ok = "helper called only by permitted writers ("+r+")", true
			}
		}
		c.Check(ok, id, "CALLERS", what+" written by "+k, instrPos(ws[f][0]), reason,
			"a function outside the accounting API mutates "+what+": the incremental counters can drift from the pods (not in the reviewed writer table)")
	}
	c.Floor(id, "CALLERS writers of "+what, len(keys), 1)
}

// allCallersAllowed: fn is unexported and every non-test static call site of fn lies in a function that is in
// the table (or is itself such a helper, to the given depth).
func allCallersAllowed(p *Prog, fn *ssa.Function, allowed map[string]string, depth int) (string, bool) {
	if fn == nil || depth == 0 || fn.Object() == nil || fn.Object().Exported() {
		return "", false
	}
	n := 0
	who := ""
	for _, cs := range p.CallSites(fn) {
		caller := rootFunc(cs.Parent())
		if isTestdataOrMock(caller) {
			continue
		}
		n++
		k := funcKey(caller)
		if _, ok := allowed[k]; ok {
			who = k
			continue
		}
		if w, ok := allCallersAllowed(p, caller, allowed, depth-1); ok {
			who = w
			continue
		}
		return "", false
	}
	return who, n > 0
}
