package main

import "fmt"

func dbgFacts(tag string, fs FactSet) {
	for _, f := range fs.sorted() {
		fmt.Printf("DBG %s: pol=%v op=%s name=%s fn=%v nargs=%d\n", tag, f.Pol, f.T.Op, f.T.Name, f.T.Fn != nil, len(f.T.Args))
	}
}
