package main

import (
	"fmt"
	"os"
	"sort"
)

func init() {
	if os.Getenv("KAIWRITERS") == "" {
		return
	}
	controlFns = append(controlFns, func(c *Ctx) {
		p := c.P
		sets := map[string]map[string][]string{
			"NodeInfo":      {pkgNodeInfo: {"Idle", "Used", "Releasing", "IdleVector", "UsedVector", "ReleasingVector", "Allocatable", "AllocatableVector"}},
			"GpuSharingNodeInfo":   {pkgNodeInfo: {"UsedSharedGPUsMemory", "ReleasingSharedGPUsMemory", "AllocatedSharedGPUsMemory", "ReleasingSharedGPUs"}},
			"PodGroupInfo":  {pkgPGInfo: {"Allocated", "AllocatedVector", "PodStatusIndex", "activeAllocatedCount"}},
			"PodSet":        {pkgPGInfo + "/subgroup_info": {"numActiveAllocatedTasks", "numActiveUsedTasks", "numAliveTasks", "podStatusIndex", "podStatusMap", "podInfos"}},
			"ResourceShare": {"pkg/scheduler/plugins/proportion/resource_share": {"Allocated", "AllocatedNotPreemptible", "Request", "Deserved", "FairShare", "MaxAllowed"}},
		}
		for typ, m := range sets {
			for pk, names := range m {
				for _, n := range names {
					fv := p.fieldVars(pk, typ, n)
					ws := p.writersOf(fv)
					var ks []string
					for f := range ws {
						ks = append(ks, funcKey(f))
					}
					sort.Strings(ks)
					fmt.Printf("WRITERS %s.%s (%d fields): %v\n", typ, n, len(fv), ks)
				}
			}
		}
	})
}
