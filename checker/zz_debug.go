package main

import "fmt"

func dbgFacts(tag string, fs FactSet) {
	for _, f := range fs.sorted() {
		fmt.Printf("DBG %s: %s\n", tag, f)
	}
}

func dbgEffects(tag string, es []Effect) {
	for _, e := range es {
		fmt.Printf("DBG %s: %s via=%s amt=%v\n", tag, e.key(), e.Via, e.AmountT)
	}
}
