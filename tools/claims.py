# Claims table (executed by gen_manifest.py). One entry per claimed property.
NOTE = ("Trusted base: go/packages, go/types, go/ssa (x/tools v0.50.0, go1.26.8), the repo-local call graph (CHA quick / VTA thorough) "
        "and the reasoned tables in checker/props_*.go. Terms are memory-less (a guard fact about an access path is assumed to still hold "
        "at the guarded instruction). The check decides the listed structural necessary conditions exhaustively over the current source; "
        "it does not decide the behavioural property over all inputs/histories.")

claim("C01",
      "guard dominance with caller lifting (SSA must-dataflow of branch facts + value-fact summaries), field-flow justification of the selector flag, inverse-effect pairing, constant bit-set relations, must-pass-through",
      "Every bind (Statement.Allocate) in the scheduler is dominated on all paths — interprocedurally — by IsTaskAllocatable(node,task)==true for the same node and task, the fit test compares against Idle only and covers every dimension, terminating/pipelined pods are charged as the property demands, add/remove are inverses, a failed bind is undone. Structural necessary conditions, decided for every site in the tree; level 'other' because the numeric sums and multi-cycle histories are not decided.",
      NOTE)

claim("C02",
      "inverse-effect pairing per status arm (SSA effect extraction), struct/vector lock-step, value-fact summaries of the fit predicates with sign analysis of the room formula, field-flow justification of the bind-vs-nominate flag, must-pass-through",
      "The per-group memory counters and whole-GPU side effects of add/remove are inverse multisets per status arm with their vector twins; a group becomes a candidate only behind IsTaskFitOnGpuGroup whose true result implies used!=0, room and not-all-releasing; the room formulas read total, allocated, (releasing) and request with the required signs; an immediate bind needs EnoughIdleResourcesOnGpu or a fresh idle device; exactly the requested number of groups is returned, stored into the pod before placement and cleared on failure; a shared allocation carries 0 whole GPUs. Structural necessary conditions; numeric reachability of counter states is not decided.",
      NOTE)

claim("C14",
      "inverse-effect pairing of 11 add/remove sibling pairs under identical status predicates, struct/vector lock-step (DUAL), instruction-order must-pass-through, who-may-write tables over SSA stores/map updates/mutating method calls, constant folding of the status predicates",
      "Every incremental counter update has an exact inverse under the same status predicate (node, shared-GPU, job, index, pod-set, queue handlers, Resource/BaseResource/Vector arithmetic); struct and vector representations move together; UpdateTaskStatus is reset→store→add and NodeInfo.UpdateTask is remove→add; the accounting fields are written only by the reviewed accounting functions; node-dependent accepted resources are recomputed before being charged; the status groups form the required lattice. Equality with recomputation over all histories is not decided.",
      NOTE)

claim("C13",
      "typestate of *framework.Statement over the SSA CFG with helper contracts (resolve / hand-over), must-pass-through for operation logging and handler firing, write-set vs restore-set comparison of forward operations and their registered inverses (incl. fields written by registered plugin handlers), provenance of captured 'previous' values, guard dominance for Commit/undo validity, who-may-call tables for cluster emission",
      "Every Statement created in the scheduler is committed, discarded or handed over on every path; Evict/Pipeline/Allocate log exactly one record per success and register inverses that restore every PodInfo field they (or the plugin handlers they fire) write, from values read before the first write, firing the opposite handler; Commit emits only operationValid operations through commit*, stops after a failed bind and never undoes; undo selects only still-valid operations; Cache.Bind/Evict/TaskPipelined are reachable only from the commit path and Session.Evict; Rollback/Discard undo in reverse order and truncate the log. State equality after undo for all sequences is not decided.",
      NOTE)

claim("C03",
      "must-pass-through on member loops and checkpoint/rollback loops, guard dominance of Commit by the attempt's success flag with value-fact summaries down to AllocateJob / JobSolver.Solve, per-path return facts (split at merges) of the attempt and of the solver verdict, sibling agreement of the gang tests, provenance of scenario victims",
      "A failed member placement aborts the gang attempt and every failed node-set attempt is rolled back to its checkpoint; every Commit outside the framework is dominated by the success flag of the attempt that produced/received that statement, and success implies AllocateJob or JobSolver.Solve succeeded; an allocate attempt succeeds only if the gang is not half-nominated or was converted; the solver reports solved only with IsGangSatisfied and progress; gang tests iterate all pod sets; 'evict one pod' is chosen only above minAvailable by active-allocated counts; victims come only from GetTasksToEvict through EvictAllPreemptees. Counting over arbitrary partitions is not decided.",
      NOTE)

claim("C06",
      "per-path return facts of the victim-filter closures and the min-runtime hooks, registry resolution of registered plugin functions and solver validators, guard dominance of candidate insertion, loop must-pass-through for scenario validators, provenance of the Statement through the solver, who-may-call for immediate evictions, edge facts of the common-ancestor scan",
      "Preempt/consolidation victim filters accept only preemptible, other, active jobs (preempt: strictly lower priority, same queue, plugin filter); reclaim candidates are of another queue, pass the plugin filter and the victims queue filters non-preemptible jobs; the min-runtime plugin registers all four hooks, rejects protected non-elastic victims, checks every protected elastic victim against minAvailable and its common-ancestor index only advances while queue paths agree; each action passes its validator to the solver and a scenario is solved only behind it; evictions and placement share the scenario's Statement; Session.Evict is used only by stale-gang eviction; consolidation rejects scenarios with a still-evicted victim; the start time is refreshed unless the workload already holds resources. Time arithmetic is not decided.",
      NOTE)

claim("C08",
      "guard dominance of placement by the capacity gates, registry resolution of the gate functions and their check lists, hierarchy-walk detection (loop re-bound through queues[q.ParentQueue]) with per-iteration must-pass-through, per-path return facts of the limit/quota comparisons, effect extraction of the plugin handlers, compile-time constants",
      "AllocateJob places only behind IsJobOverQueueCapacityFn(..).IsSchedulable, preempt searches only behind the non-preemptible quota gate, and a node is accepted only behind the per-node gate; proportion registers the three gates and each runs limit + non-preemptible-quota checks (first failure decides); each check compares every ancestor and all three resources, answering 'over' exactly for limit < allocated+request / deserved < non-preemptible+request; allocate/deallocate handlers update Allocated for every ancestor and AllocatedNotPreemptible exactly for non-preemptible jobs; queue memory is scaled by the API unit 10^6. The numeric running sums are not decided.",
      NOTE)

claim("C07",
      "value-fact summaries and per-path return facts of the reclaim validators and strategies, guard dominance and provenance in the victim loop, init-once guard of the remaining-share map, hierarchy-walk detection, must-definition of the per-attempt snapshot, float-aware (NaN-preserving) comparison facts for the saturation test and the multiplier clamp, field coverage of Clone",
      "A reclaim scenario is accepted only if each victim chunk fits a strategy evaluated on the remaining share of the queue at the divergence level (initialised once, reduced for every ancestor) and the boundary walk holds; MaintainFairShare / GuaranteeDeservedQuota carry their defining facts; CanReclaimResources (fair share, deserved quota for non-preemptible, request added first) dominates every reclaim attempt and is repeated at every ancestor; the saturation test refuses on ratio>1 ∧ siblingFair>0 ∧ ratio·m ≥ sibling (equality refuses) with m clamped to ≥1 and NaN excluded; the per-attempt snapshot is rebuilt on every attempt from clones that copy every field. Numeric truth of the shares is not decided.",
      NOTE)

claim("C10",
      "hierarchy-walk detection over SSA loops (element re-bound through m[q.ParentQueue]) with a boundedness test, sanitiser shape and ordering (must-pass-through), who-may-fill tables for the walked queue maps and child links, nil-map-dereference analysis with phi-correlated ok flags and a reviewed invariant table, argument shape of pod-set minimums",
      "Every ParentQueue walk in the scheduler is bounded or runs on a queue map filled only from the snapshot, which removes parent cycles (bounded walk + delete, before linking children and cleaning orphans) before publishing; ChildQueues recursion follows links written only by the sanitiser; every unguarded dereference of a queue looked up by id is covered by a reviewed invariant (a new one is reported); pod-set minimums taken from the API are forced to ≥ 1; a task naming an unknown sub-group is dropped rather than filed elsewhere; a rejected sub-group graph leaves the default pod set. General panic freedom and liveness are not decided.",
      NOTE)

claim("C11",
      "must-pass-through with error-edge pruning on Binder.Bind / Reconcile / Rollback, guard dominance of the bind attempt, deferred-closure analysis (recover path), provenance of the synced node, sibling agreement between forward and release methods of the plugin interfaces (reachability of mutating client calls)",
      "The pods/binding create is the last fallible step and last API write of Binder.Bind; a failing Bind always reaches Rollback; Rollback runs every step for shared-GPU requests without short-circuit and every plugin's rollback; bind and rollback sync the request's SelectedNode; Bind runs only for live, not-yet-succeeded requests of unbound pods behind a deferred UpdateStatus that turns a recovered panic into a failed attempt; plugins that create/reserve in PreBind/Allocate/Bind release in Rollback/UnAllocate (the DRA plugin's empty UnAllocate is a recorded known finding). Fault and crash interleavings are not decided.",
      NOTE)

claim("C12",
      "per-path return facts of getTaskStatus / GetBindRequestForPod / IsFailed, provenance of node, GPU groups and received type from the BindRequest, constant folding of the status predicates, guard dominance in the stale-request cleanup, must-pass-through from every status write to the status patch with 'unchanged' edges pruned, complementarity of the retry and terminal conditions by their branch facts",
      "A pending unbound pod with a live BindRequest is Binding on the request's SelectedNode with the request's GPU groups and received type (request first); Binding is an active-used, allocated status; a request is hidden from the snapshot exactly when absent or terminally failed and exactly deleted-node and terminally failed requests are deleted; every change the binder makes to Status.Phase or Status.FailedAttempts reaches Status().Patch; a retry is scheduled iff limit set ∧ attempts < limit ∧ failure, and IsFailed ⇔ Failed ∧ (no limit ∨ attempts ≥ limit). Cross-process interleavings are not decided.",
      NOTE)

claim("C17",
      "lock-held-on-entry analysis (functions performing pod create/delete/patch closed under callers until an acquire that dominates the call, with the locked group passed down), acquire/release pairing on all exits, effect extraction of the reference count, call-graph reachability of the per-group sync from the event handlers / bind / rollback / start-up, guard dominance inside the sync, provenance of the patched object",
      "Every function of the reservation service that creates, deletes or labels pods runs only with the per-group mutex held for that group (one reviewed exception); acquire and release are paired on every exit and the group mutex changes its reference count exactly once per handed-out mutex; pod delete/completion handlers, the BindRequest delete handler, bind, rollback and start-up reach the per-group sync; the sync deletes a reservation pod only without live consumers, running consumers only without a reservation; the consumer's label patch goes through the caller's pod object. The iff-invariant over interleavings and crashes is not decided.",
      NOTE)

claim("C18",
      "must-pass-through and guard dominance in ApplyToCluster, must-definition of the foreign-owned fields in ignoreFields (value provenance from the stored object, guards free of conditions on the computed value), argument orientation of the map comparisons with sibling agreement, nil-vs-empty analysis of the desired object against the comparison used, who-may-call scan for clock/random sources, map-order sinks, parameter dependence of PodGroup names",
      "The PodGroup is updated only after ignoreFields and only behind !podGroupsEqual on its result, created only behind NotFound; ignoreFields restores Spec.MarkUnschedulable/SchedulingBackoff/Queue on every path and the node-pool and queue labels whenever the stored object has them; labels/annotations are compared computed→stored like the update copies them; an empty omitempty collection cannot make an unchanged workload unequal; the grouper uses no clock/random/uuid and no unsorted map iteration feeds an ordered value; PodGroup names depend on the pod only for the reviewed per-pod kinds. Cross-reconcile relations are not decided.",
      NOTE)

claim("C19",
      "compile-time constant comparison of annotation keys, sibling agreement of every strconv.Parse* call per annotation key across the whole repository (provenance of the parsed string from an Annotations lookup), NaN-preserving positive-form range facts on the validator's accepting paths and on the scheduler's request-type stores, field coverage of the conflict check, per-path return facts of admission's Validate, must-pass-through of validation on pod updates, upsert shape of the mutation helpers",
      "Scheduler and admission/binder read the same annotation keys; each GPU annotation is parsed with one strconv function and bit size in every component; the validator accepts, and the scheduler creates a sharing request, only behind parsed ∧ 0 < value (∧ upper bound) established in positive form (NaN excluded); the whole-GPU conflict check covers init containers; admission accepts only with sharing enabled or no sharing annotation, after ValidateGpuRequests; every update of a pod of this scheduler is validated; the mutation helpers replace-by-name before appending. String-level corner cases inside an accepted cell are not decided.",
      NOTE)

NA = {
    "C15": "quantifies over infinite executions of a closed system (lasso freedom); no static shape of the code settles it. Its three guards (strict saturation comparison with multiplier >= 1, strictly-lower priority for preempt, consolidation only when all victims are re-placed) are decided as clauses of C07 and C06.",
}
for _p in ["C04","C05","C09","C16","C20"]:
    NA.setdefault(_p, "check under construction in this session (see DESIGN.md §4 for the planned static obligations); not claimed until the check exists")
