# Claims table (executed by gen_manifest.py). One entry per claimed property.
NOTE = ("Trusted base: go/packages, go/types, go/ssa (x/tools v0.50.0, go1.26.8), the repo-local call graph (CHA quick / VTA thorough) "
        "and the reasoned tables in checker/props_*.go. Terms are memory-less (a guard fact about an access path is assumed to still hold "
        "at the guarded instruction). The check decides the listed structural necessary conditions exhaustively over the current source; "
        "it does not decide the behavioural property over all inputs/histories.")

claim("C01",
      "guard dominance with caller lifting (SSA must-dataflow of branch facts + value-fact summaries), field-flow justification of the selector flag, inverse-effect pairing, constant bit-set relations, must-pass-through",
      "Every bind (Statement.Allocate) in the scheduler is dominated on all paths — interprocedurally — by IsTaskAllocatable(node,task)==true for the same node and task, the fit test compares against Idle only and covers every dimension, terminating/pipelined pods are charged as the property demands, add/remove are inverses, a failed bind is undone. Structural necessary conditions, decided for every site in the tree; level 'other' because the numeric sums and multi-cycle histories are not decided.",
      NOTE)

NA = {
    "C15": "quantifies over infinite executions of a closed system (lasso freedom); no static shape of the code settles it. Its three guards (strict saturation comparison with multiplier >= 1, strictly-lower priority for preempt, consolidation only when all victims are re-placed) are decided as clauses of C07 and C06.",
}
for _p in ["C02","C03","C04","C05","C06","C07","C08","C09","C10","C11","C12","C13","C14","C16","C17","C18","C19","C20"]:
    NA.setdefault(_p, "check under construction in this session (see DESIGN.md §4 for the planned static obligations); not claimed until the check exists")
