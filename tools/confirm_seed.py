#!/usr/bin/env python3
"""usage: confirm_seed.py <seed-out-dir> [...]   e.g. /tmp/seed/C13-out/mutA
Confirms a seeded change in a scratch worktree of /repo (never /repo itself):
 demo passes without the patch; with the patch: touched packages build, their existing tests pass, demo fails.
Writes <dir>/confirm.json and removes the worktree."""
import json, os, re, subprocess, sys, shutil, tempfile, glob

def sh(cmd, cwd, timeout=1800):
    p = subprocess.run(cmd, shell=True, cwd=cwd, stdout=subprocess.PIPE, stderr=subprocess.STDOUT, timeout=timeout)
    return p.returncode, p.stdout.decode(errors="replace")

def main(d):
    d = d.rstrip("/")
    meta = json.load(open(os.path.join(d, "meta.json")))
    demo_md = open(os.path.join(d, "DEMO.md")).read() if os.path.exists(os.path.join(d, "DEMO.md")) else ""
    text = demo_md + "\n" + json.dumps(meta)
    # demo files: every *.go in the dir except none; destination paths from DEMO.md
    demos = sorted(glob.glob(os.path.join(d, "*.go")) + glob.glob(os.path.join(d, "demo/*.go")))
    paths = re.findall(r"((?:pkg|cmd|test)/[\w\-/\.]+\.go)", text)
    paths = [p for p in dict.fromkeys(paths) if "demo" in p.lower() or p.endswith("_test.go")]
    paths = [p for p in paths if not any(p == f for f in meta.get("files_changed", []))]
    cmds = re.findall(r"(go test [^\n`\"]*-run[^\n`\"]*)", text)
    if not cmds:
        cmds = re.findall(r"(go (?:test|run) [^\n`\"]+)", text)
    res = {"seed": d, "property": meta.get("property"), "demo_paths": paths[:len(demos)], "demo_cmd": cmds[0] if cmds else None}
    if not demos or not paths or not cmds:
        res["status"] = "UNPARSED"
        json.dump(res, open(os.path.join(d, "confirm.json"), "w"), indent=1)
        print(d, "UNPARSED", paths, cmds[:1]); return
    wt = tempfile.mkdtemp(prefix="confirm.", dir="/var/tmp")
    os.rmdir(wt)
    sh(f"git -C /repo worktree add --detach {wt} HEAD", "/")
    try:
        # place demos: pair by order; a single demo goes to the first path
        if len(demos) == 1:
            pairs = [(demos[0], paths[0])]
        else:
            pairs = []
            for dm in demos:
                base = os.path.basename(dm)
                cand = [p for p in paths if os.path.basename(p) == base] or [paths[min(len(pairs), len(paths)-1)]]
                pairs.append((dm, cand[0]))
        for src, dst in pairs:
            os.makedirs(os.path.join(wt, os.path.dirname(dst)), exist_ok=True)
            shutil.copy(src, os.path.join(wt, dst))
        cmd = cmds[0].strip().rstrip("`").strip()
        cmd = re.sub(r"^.*?(go (?:test|run) )", r"\1", cmd)
        if "-p " not in cmd:
            cmd = cmd.replace("go test ", "go test -p 4 ", 1)
        rc0, out0 = sh(cmd, wt)
        res["without_patch"] = {"rc": rc0, "tail": out0[-600:]}
        rc, out = sh(f"git apply {os.path.join(d, 'patch.diff')}", wt)
        if rc != 0:
            res["status"] = "PATCH-FAILED"; res["apply"] = out
        else:
            pkgs = sorted({"./" + os.path.dirname(f) + "/..." for f in meta.get("files_changed", []) if f.endswith(".go")})
            if not pkgs:
                rcx, outx = sh("git diff --name-only", wt)
                pkgs = sorted({"./" + os.path.dirname(f) + "/..." for f in outx.split() if f.endswith(".go")})
            rcb, outb = sh("go build ./... ", wt)
            res["build"] = {"rc": rcb, "tail": outb[-400:]}
            rc1, out1 = sh(cmd, wt)
            res["with_patch"] = {"rc": rc1, "tail": out1[-1200:]}
            # existing tests of the touched packages, demo files removed
            for _, dst in pairs:
                os.remove(os.path.join(wt, dst))
            rct, outt = sh(f"go test -mod=mod -vet=off -count=1 -p 4 {' '.join(pkgs)} 2>&1 | grep -v '^ok\\|no test files' | tail -30", wt, timeout=3000)
            res["existing_tests"] = {"pkgs": pkgs, "failures": outt[-1500:]}
            # envtest suites cannot start in this sandbox (no etcd binary); they fail identically on the unchanged tree
            import re as _re
            failing = [l for l in outt.splitlines() if l.startswith("FAIL\t")]
            env_only = all(("integration_tests" in l or "env-tests" in l or "queuecontroller/controllers\t" in l) for l in failing) and ("BeforeSuite" in outt or not failing)
            res["existing_tests"]["environmental_only"] = bool(failing) and env_only
            ok = rc0 == 0 and rcb == 0 and rc1 != 0 and (not failing or env_only)
            res["status"] = "CONFIRMED" if ok else "NOT-CONFIRMED"
    finally:
        sh(f"git -C /repo worktree remove --force {wt}", "/")
        shutil.rmtree(wt, ignore_errors=True)
    json.dump(res, open(os.path.join(d, "confirm.json"), "w"), indent=1)
    print(d, res["status"])

for a in sys.argv[1:]:
    try:
        main(a)
    except Exception as e:
        print(a, "ERROR", e)
