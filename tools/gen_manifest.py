#!/usr/bin/env python3
"""Regenerates /verif/MANIFEST.json from the table below (kept next to the checker so the
claims, techniques and not-applicable reasons stay in one reviewed place)."""
import json, os, sys
HERE = os.path.dirname(os.path.abspath(__file__))
ROOT = os.path.dirname(HERE)

# id -> (technique, level text, level note, design ref)
CLAIMS = {}
def claim(pid, technique, text, note):
    CLAIMS[pid] = dict(technique=technique, text=text, note=note)

exec(open(os.path.join(HERE, "claims.py")).read())
# obligations added after the seeding rounds (DESIGN.md §10.9): (technique addendum, claim-text addendum)
for pid, (tech, text) in ADDENDA.items():
    CLAIMS[pid]["technique"] += "; " + tech
    CLAIMS[pid]["text"] += " Added after seeding (DESIGN.md §10.9): " + text
    CLAIMS[pid]["design_ref"] = "§10.9"

for pid, (tech, text) in ADDENDA2.items():
    CLAIMS[pid]["technique"] += "; " + tech
    CLAIMS[pid]["text"] += " Added in DESIGN.md §10.12–§10.14: " + text
    CLAIMS[pid]["design_ref2"] = True

for pid, (tech, text) in ADDENDA3.items():
    CLAIMS[pid]["technique"] += "; " + tech
    CLAIMS[pid]["text"] += " Added in DESIGN.md §10.15–§10.16: " + text

for pid, (tech, text) in ADDENDA4.items():
    CLAIMS[pid]["technique"] += "; " + tech
    CLAIMS[pid]["text"] += " Added in DESIGN.md §10.17: " + text

for pid, (tech, text) in ADDENDA5.items():
    CLAIMS[pid]["technique"] += "; " + tech
    CLAIMS[pid]["text"] += " Added in DESIGN.md §10.18: " + text

NOT_APPLICABLE = NA  # from claims.py

allp = [json.loads(l)["id"] for l in open(os.path.join(ROOT, "properties.jsonl"))]
checks = []
for pid in allp:
    if pid not in CLAIMS:
        continue
    c = CLAIMS[pid]
    checks.append({
        "property_id": pid,
        "quick_cmd": f"./bin/check -p {pid} -tier quick",
        "thorough_cmd": f"./bin/check -p {pid} -tier thorough",
        "evidence_file": f"/verif/evidence/{pid}.json",
        "replay_cmd_template": f"./bin/check -p {pid} -tier quick  # the replay file {{path}} lists the violated obligations (file:line, rule, construct)",
        "engine": "kaicheck",
        "level_claimed": {"category": "other", "text": c["text"], "design_ref": f"DESIGN.md §4 {pid}" + (", §10.3, §10.9" if pid in ADDENDA else ", §10.3") + (", §10.12–§10.14" if pid in ADDENDA2 else "") + (", §10.16" if pid in ADDENDA3 else "") + (", §10.17" if pid in ADDENDA4 else "") + (", §10.18" if pid in ADDENDA5 else "")},
        "level_note": c["note"],
        "technique": c["technique"],
    })
na = [{"property_id": pid, "reason": NOT_APPLICABLE[pid]} for pid in allp if pid not in CLAIMS]
missing = [pid for pid in allp if pid not in CLAIMS and pid not in NOT_APPLICABLE]
if missing:
    sys.exit(f"properties neither claimed nor not_applicable: {missing}")
manifest = {
    "version": 1,
    "setup_cmd": "./bin/build.sh",
    "hooks": {
        "guard": "verif",
        "enable": "none needed: the checks are static analyses of /repo's working tree (go/packages + go/ssa); no instrumentation is compiled into the repository",
        "baseline_off_cmd": "cd /repo && go test -mod=mod -json -vet=off -count=1 -timeout 25m ./...",
        "source_commits": [],
        "add_only": True,
    },
    "engines": [{
        "name": "kaicheck",
        "path": "checker/",
        "serves_properties": [c["property_id"] for c in checks],
        "kind_free_text": "repo-specific static analyzer over go/types + go/ssa: guard-dominance / value-fact summaries (DOM, RET), must-pass-through (MPT), who-may-call/write (CALLERS), inverse-effect pairing (PAIR), dual-representation lock-step (DUAL), field coverage (FIELDS), typestate (STMT), hierarchy-walk (WALK), nil-map-deref (NILMAP), map-order sinks (MAPORDER), finite-partition abstract evaluation (ABS), lock-held-on-entry (LOCK), finite-state abstract interpretation with ghost state and callee summaries (GHOST), nil-map write / optional-field dereference (NILWRITE, NILFIELD), dropped and swallowed errors (ERRDROP)",
    }],
    "checks": checks,
    "not_applicable": na,
    "notes": "All checks are static analyses: they load /repo's current working tree with go/packages, build SSA and decide named structural obligations; nothing from the repository is executed. Exit 0 held, 1 violation (VIOLATION line), 2 could not decide (UNDECIDED lines). known_findings.json lists recorded genuine defects.",
}
json.dump(manifest, open(os.path.join(ROOT, "MANIFEST.json"), "w"), indent=1)
print(f"MANIFEST.json: {len(checks)} checks, {len(na)} not applicable")
