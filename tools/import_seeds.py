#!/usr/bin/env python3
"""Imports the confirmed seeded changes from a seed output tree into /verif/seeded/<prop>-<X>/.
patch.diff applies to the current /repo HEAD (rebased copy from selftest/mutants when the original no longer applies;
the original is then kept as patch.orig.diff)."""
import json, os, shutil, subprocess, sys, glob
SRC = sys.argv[1] if len(sys.argv) > 1 else "/tmp/seed"
R = "/var/tmp/mk/r"
rebased = {
    "C18-mutB": "selftest/mutants/C18/seeded_annotations_compared_backwards.patch",
    "C20-mutA": "selftest/mutants/C20/seeded_should_update_partial_compare.patch",
}
subprocess.check_call(["git", "-C", R, "checkout", "-q", "--", "."])
for d in sorted(glob.glob(SRC + "/C*-out/mut*")):
    prop = os.path.basename(os.path.dirname(d)).split("-")[0]
    mut = os.path.basename(d)
    sid = f"{prop}-{mut[-1]}"
    conf = json.load(open(d + "/confirm.json"))
    if conf.get("status") != "CONFIRMED":
        print("skip (not confirmed)", d); continue
    out = f"/verif/seeded/{sid}"
    os.makedirs(out, exist_ok=True)
    ok = subprocess.call(["git", "-C", R, "apply", "--check", d + "/patch.diff"], stderr=subprocess.DEVNULL) == 0
    if ok:
        shutil.copy(d + "/patch.diff", out + "/patch.diff")
    else:
        key = f"{prop}-{mut}"
        if key not in rebased:
            print("NO REBASE FOR", key); continue
        shutil.copy("/verif/" + rebased[key], out + "/patch.diff")
        shutil.copy(d + "/patch.diff", out + "/patch.orig.diff")
    for f in ("demo_test.go", "DEMO.md"):
        if os.path.exists(d + "/" + f):
            shutil.copy(d + "/" + f, out + "/" + ("demo_test.go.txt" if f.endswith(".go") else f))
    meta = json.load(open(d + "/meta.json"))
    meta["id"] = sid
    meta["patch_applies_to"] = "current /repo HEAD" if ok else "current /repo HEAD (rebased; original against b11bfe7 in patch.orig.diff)"
    meta["confirmation"] = {
        "by": "tools/confirm_seed.py in a scratch worktree",
        "demo_cmd": conf.get("demo_cmd"),
        "demo_without_patch_rc": conf.get("without_patch", {}).get("rc"),
        "build_with_patch_rc": conf.get("build", {}).get("rc"),
        "demo_with_patch_rc": conf.get("with_patch", {}).get("rc"),
        "demo_with_patch_tail": (conf.get("with_patch", {}).get("tail") or "")[-600:],
        "existing_tests_run": conf.get("existing_tests", {}).get("pkgs"),
        "existing_tests_failures": conf.get("existing_tests", {}).get("failures"),
        "status": conf.get("status"),
    }
    json.dump(meta, open(out + "/meta.json", "w"), indent=1, ensure_ascii=False)
    print("imported", sid, "" if ok else "(rebased)")
