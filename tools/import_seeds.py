#!/usr/bin/env python3
"""usage: import_seeds.py <root> <round> <letterA> <letterB> — imports the confirmed seeded changes (<root>/Cxx-out/mutA|mutB)
and into selftest/mutants/Cxx/seeded4_<letter>.patch."""
import json, os, shutil, subprocess, sys, glob
SRC, ROUND, LA, LB = sys.argv[1], int(sys.argv[2]), sys.argv[3], sys.argv[4]
R = "/repo"
letter = {"mutA": LA, "mutB": LB}
for d in sorted(glob.glob(SRC + "/C[0-9][0-9]-out/*mut*")):
    prop = os.path.basename(os.path.dirname(d)).split("-")[0]
    mut = os.path.basename(d)
    if mut not in letter or not os.path.isdir(d):
        continue
    sid = f"{prop}-{letter[mut]}"
    if not os.path.exists(d + "/confirm.json"):
        print("skip (no confirm.json yet)", d); continue
    conf = json.load(open(d + "/confirm.json"))
    if conf.get("status") != "CONFIRMED":
        print("skip (not confirmed)", d); continue
    if subprocess.call(["git", "-C", R, "apply", "--check", d + "/patch.diff"], stderr=subprocess.DEVNULL) != 0:
        print("DOES NOT APPLY", d); continue
    out = f"/verif/seeded/{sid}"
    os.makedirs(out, exist_ok=True)
    shutil.copy(d + "/patch.diff", out + "/patch.diff")
    for f in sorted(os.listdir(d)):
        if f.endswith(".go"):
            shutil.copy(d + "/" + f, out + "/" + f + ".txt")
        elif f == "DEMO.md":
            shutil.copy(d + "/" + f, out + "/" + f)
    meta = json.load(open(d + "/meta.json"))
    meta["id"] = sid
    meta["round"] = ROUND
    meta["patch_applies_to"] = "current /repo HEAD"
    meta["confirmation"] = {
        "by": "tools/confirm_seed.py in a scratch worktree",
        "demo_cmd": conf.get("demo_cmd"),
        "demo_without_patch_rc": conf.get("without_patch", {}).get("rc"),
        "build_with_patch_rc": conf.get("build", {}).get("rc"),
        "demo_with_patch_rc": conf.get("with_patch", {}).get("rc"),
        "demo_with_patch_tail": (conf.get("with_patch", {}).get("tail") or "")[-600:],
        "existing_tests_run": conf.get("existing_tests", {}).get("pkgs"),
        "existing_tests_failures": conf.get("existing_tests", {}).get("failures"),
        "existing_tests_environmental_only": conf.get("existing_tests", {}).get("environmental_only"),
        "status": conf.get("status"),
    }
    json.dump(meta, open(out + "/meta.json", "w"), indent=1, ensure_ascii=False)
    print("imported", sid)
    os.makedirs(f"/verif/selftest/mutants/{prop}", exist_ok=True)
    shutil.copy(d + "/patch.diff", f"/verif/selftest/mutants/{prop}/seeded{ROUND}_{sid}.patch")
