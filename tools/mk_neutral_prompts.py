#!/usr/bin/env python3
"""usage: mk_neutral_prompts.py <round-root> [Cxx ...] — writes <round-root>/prompts/Cxx.txt: a request for FOUR
behaviour-preserving refactorings of the code that implements one property (false-alarm round, DESIGN.md §10.8).
The prompt contains the property text and the scratch worktree only - nothing else from /verif."""
import json, os, sys, glob

TEMPLATE = """You are helping to evaluate a verification framework for NVIDIA/KAI-Scheduler (a Kubernetes batch scheduler for GPU
workloads, written in Go): does it stay SILENT on code changes that do not change behaviour? You get ONE semantic property
of the system (below) and your own scratch git worktree of the repository at

    @WT@

Work ONLY inside that worktree and inside your output directory @OUT@ . Do NOT read, list or modify anything under /verif,
and do NOT modify /repo (it is the main checkout; your worktree is a separate directory). There is no network.

YOUR TASK: produce FOUR independent, BEHAVIOUR-PRESERVING refactorings (neutralA .. neutralD) of production code that
IMPLEMENTS the property below - the guards, loops, comparisons, bookkeeping and helper functions the property depends on,
in the listed files or in what they call. Each refactoring must

  1. keep the observable behaviour EXACTLY the same for every input (same results, same side effects in the same order
     wherever order matters, same error returns) - you must be able to argue this in two sentences,
  2. compile (`go build ./...`) and pass the existing tests of every package it touches and of the packages that use it,
  3. be the kind of change a maintainer would really make in a clean-up: extract a guard / loop body / block into a helper
     function or method (or inline a small helper), invert an early return into nested ifs or the reverse, turn an if-chain
     into a switch or the reverse, apply De Morgan, replace a hand-written loop by a standard-library equivalent
     (slices.ContainsFunc, slices.IndexFunc, maps.Copy with the SAME argument roles, min/max builtins, cmp.Compare) or the
     reverse, change the loop form (range <-> index), introduce a named local for a sub-expression or remove one, reorder
     INDEPENDENT statements, move a function to another file of the same package, pass a value through a small struct or a
     closure, rename locals / unexported helpers, convert a method to a function taking the receiver as parameter,
  4. touch REAL logic of the property (not comments, not logging only, not test files) and be moderately sized
     (roughly 10-60 changed lines); the four should use DIFFERENT kinds of refactoring and touch DIFFERENT functions.
     Prefer functions further away from the most obvious entry point: helpers, predicates, comparators, bookkeeping
     (add/remove pairs), validators, filters, parsers.
  Do NOT rename or move exported functions/methods/types or change their signatures, and do not change any behaviour
  "for the better" (no bug fixes, no extra guards, no removed guards, no changed constants).

THE PROPERTY (@PID@: @TITLE@)
Statement: @STATEMENT@
Files where the behaviour mostly lives (a starting point, not a limit):
@FILES@

Environment reminder:
  export PATH=/opt/veriftools/go1.26.8/bin:$PATH GOFLAGS=-mod=mod GOPROXY=off GOSUMDB=off GOTOOLCHAIN=local; unset GOWORK
  (put this in front of EVERY shell command; the environment does not persist between commands)
  Tests: `go test -mod=mod -vet=off -count=1 -p 4 ./pkg/<area>/...` (use -p 4, other people share the machine). The envtest
  suites (pkg/binder/controllers/integration_tests, pkg/env-tests, pkg/queuecontroller/controllers, any suite that fails in
  BeforeSuite because /usr/local/kubebuilder/bin/etcd is missing) cannot start on this machine and fail identically on the
  unmodified code: ignore them. TestReclaimGpuDRAIntegrationTest is flaky on the unmodified tree.
  NEVER use `git stash` (the stash is shared by all worktrees of this repository and other people use it).
  Make each refactoring on a clean tree (`git checkout -- .` between them): the four patches must apply INDEPENDENTLY to HEAD.

DELIVERY (exactly this layout; it is processed by a script):
  @OUT@/neutralA/patch.diff   `git diff` of the change (production code only), applies to the worktree's HEAD with `git apply`
  @OUT@/neutralA/meta.json    {"property": "@PID@", "kind": "<extract helper | invert early return | if->switch | stdlib equivalent | ...>",
                               "summary": "<file, function, what was restructured>", "why_equivalent": "<two sentences>",
                               "files_changed": ["pkg/..."], "tests_run": ["<command -> result>", ...]}
  and the same two files under neutralB, neutralC, neutralD.
When you are done, leave the worktree clean (`git checkout -- .`). Your final message: one sentence per refactoring.
"""

root = sys.argv[1]
only = set(sys.argv[2:])
os.makedirs(f"{root}/prompts", exist_ok=True)
for line in open("/verif/properties.jsonl"):
    p = json.loads(line)
    pid = p["id"]
    if only and pid not in only:
        continue
    txt = (TEMPLATE.replace("@WT@", f"{root}/{pid}").replace("@OUT@", f"{root}/{pid}-out").replace("@PID@", pid)
           .replace("@TITLE@", p["title"]).replace("@STATEMENT@", p["statement"])
           .replace("@FILES@", "".join(f"  - {f}\n" for f in p["anchors"]["files"])))
    open(f"{root}/prompts/{pid}.txt", "w").write(txt)
    print(pid)
