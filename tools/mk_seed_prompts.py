#!/usr/bin/env python3
"""usage: mk_seed_prompts.py <round-root> [Cxx ...] — writes <round-root>/prompts/Cxx.txt for every property (or the listed
ones): the property text (from properties.jsonl), the scratch worktree path, the delivery protocol and a one-line list of
the changes earlier rounds already produced (so that new ones use other mechanisms). Nothing else from /verif goes into a
prompt. The template is embedded here (the earlier version read it from a scratch directory that a restore removes)."""
import json, os, sys, glob

TEMPLATE_HEAD = """You are helping to evaluate how well a verification framework detects realistic regressions in NVIDIA/KAI-Scheduler
(a Kubernetes batch scheduler for GPU workloads, written in Go). You get ONE semantic property of the system (below) and
your own scratch git worktree of the repository at

    @WT@

Work ONLY inside that worktree and inside your output directory @OUT@ . Do NOT read, list or modify anything under /verif,
and do NOT modify /repo (it is the main checkout; your worktree is a separate directory). There is no network.

YOUR TASK: produce TWO independent changes to the production code (call them mutA and mutB; different functions /
mechanisms, ideally different files) such that EACH of them

  1. BREAKS the property below (a real behavioural violation that a user would suffer from),
  2. still compiles (`go build ./...`) and still passes the EXISTING test suite of every package it touches and of the
     packages that exercise it (run them; see the environment reminder),
  3. looks like something a competent developer could plausibly commit: a refactoring slip, an 'optimisation', a
     simplification, a copy/paste mistake, an off-by-one, a swapped argument, a guard that looks redundant, a moved
     statement, a changed default - NOT sabotage, no dead code, no comments that give it away, and SMALL (a few lines),
  4. needs something SPECIFIC to manifest - a particular interleaving, a crash or API fault at a particular point, a
     multi-step sequence of operations, an unusual but legal input, or two cooperating sites that each look fine alone -
     NOT something ordinary use or the existing tests would expose at once.

For each change also write a DEMONSTRATION: a Go test file (new `_test.go` file, self-contained, using only what the
repository already has - its fakes, test utilities, fake clientsets) that PASSES on the unmodified code and FAILS with the
change applied, and whose failure message says how the property is violated. Run it both ways yourself.

"""

TEMPLATE_TAIL = """Environment reminder:
  export PATH=/opt/veriftools/go1.26.8/bin:$PATH GOFLAGS=-mod=mod GOPROXY=off GOSUMDB=off GOTOOLCHAIN=local; unset GOWORK
  (put this in front of EVERY shell command; the environment does not persist between commands)
  Tests: `go test -mod=mod -vet=off -count=1 -p 4 ./pkg/<area>/...` (use -p 4, other people share the machine). The envtest
  suites (pkg/binder/controllers/integration_tests, pkg/env-tests, pkg/queuecontroller/controllers, any suite that fails in
  BeforeSuite because /usr/local/kubebuilder/bin/etcd is missing) cannot start on this machine and fail identically on the
  unmodified code: ignore them. TestReclaimGpuDRAIntegrationTest is flaky on the unmodified tree.
  NEVER use `git stash` (the stash is shared by all worktrees of this repository and other people use it): toggle your
  change with `git diff > p.diff; git apply -R p.diff; git apply p.diff`.
  Read the code first (start from the listed files, follow callers/callees); the repository's docs/ directory explains the
  intended behaviour.

DELIVERY (exactly this layout; it is processed by a script):
  @OUT@/mutA/patch.diff     `git diff` of the PRODUCTION change only (no test files), applies to the worktree's HEAD with `git apply`
  @OUT@/mutA/demo_test.go   the demonstration test file
  @OUT@/mutA/DEMO.md        where to put the demo, as a line of the form
                                pkg/<...>/<name>_demo_test.go
                            and the exact command, as a line of the form
                                go test -mod=mod -vet=off -count=1 ./pkg/<...>/ -run <TestName> -v
                            plus what is expected without and with the patch
  @OUT@/mutA/meta.json      {"property": "@PID@", "summary": "<file, function, what was changed and why it breaks the property>",
                             "needs_to_manifest": "<the specific input / sequence / interleaving / fault needed>",
                             "files_changed": ["pkg/..."], "tests_run": ["<command -> result>", ...],
                             "demo_cmd": "<the go test command>", "demo_passes_without_patch": true, "demo_fails_with_patch": true}
  and the same four files under @OUT@/mutB/ .
When you are done, leave the worktree clean (`git checkout -- .` and remove your demo files from it) - the deliverables live
only in @OUT@ . Your final message: two or three sentences per change (what, where, what it needs to manifest).
"""

root = sys.argv[1]
only = set(sys.argv[2:])
os.makedirs(f"{root}/prompts", exist_ok=True)
for line in open("/verif/properties.jsonl"):
    p = json.loads(line)
    pid = p["id"]
    if only and pid not in only:
        continue
    taken = []
    for d in sorted(glob.glob(f"/verif/seeded/{pid}-*")):
        m = json.load(open(d + "/meta.json"))
        s = (m.get("summary") or "").replace("\n", " ")
        taken.append("  - " + s[:220] + ("…" if len(s) > 220 else ""))
    body = f"THE PROPERTY ({pid}: {p['title']})\nStatement: {p['statement']}\nQuantified over: {p['quantifier']['text']}\nWhy the existing tests do not settle it: {p['why_tests_cant']}\nFiles where the behaviour mostly lives (a starting point, not a limit):\n"
    body += "".join(f"  - {f}\n" for f in p["anchors"]["files"])
    if taken:
        body += "\n\nALREADY TAKEN - earlier rounds produced the following changes for this property; yours must be DIFFERENT ones, in other functions/mechanisms (do not re-do or vary these; prefer parts of the behaviour, and files, that none of them touches):\n" + "\n".join(taken) + "\n\n"
    else:
        body += "\n\n"
    txt = (TEMPLATE_HEAD + body + TEMPLATE_TAIL).replace("@WT@", f"{root}/{pid}").replace("@OUT@", f"{root}/{pid}-out").replace("@PID@", pid)
    open(f"{root}/prompts/{pid}.txt", "w").write(txt)
    print(pid, len(taken))
