#!/usr/bin/env python3
"""usage: mk_seed_prompts.py <round-root> — writes <round-root>/prompts/Cxx.txt for every claimed property: the property text
(from properties.jsonl), the scratch worktree path, the delivery protocol and a one-line list of the changes earlier rounds
already produced (so that new ones use other mechanisms). Nothing else from /verif goes into a prompt."""
import json, os, sys, glob
root = sys.argv[1]
tmpl = open("/var/tmp/seed2/prompts/C13.txt").read()
head_end = tmpl.index("THE PROPERTY")
tail_start = tmpl.index("Environment reminder:")
for line in open("/verif/properties.jsonl"):
    p = json.loads(line)
    pid = p["id"]
    if pid == "C15":
        continue
    taken = []
    for d in sorted(glob.glob(f"/verif/seeded/{pid}-*")):
        m = json.load(open(d + "/meta.json"))
        s = (m.get("summary") or "").replace("\n", " ")
        taken.append("  - " + s[:220] + ("…" if len(s) > 220 else ""))
    head = tmpl[:head_end].replace("/var/tmp/seed2/C13", f"{root}/{pid}")
    body = f"THE PROPERTY ({pid}: {p['title']})\nStatement: {p['statement']}\nQuantified over: {p['quantifier']['text']}\nFiles where the behaviour mostly lives (a starting point, not a limit):\n"
    body += "".join(f"  - {f}\n" for f in p["anchors"]["files"])
    body += "\n\nALREADY TAKEN - earlier rounds produced the following changes for this property; yours must be DIFFERENT ones, in other functions/mechanisms (do not re-do or vary these; prefer parts of the behaviour, and files, that none of them touches):\n" + "\n".join(taken) + "\n\n"
    tail = tmpl[tail_start:].replace("/var/tmp/seed2/C13", f"{root}/{pid}").replace('"property": "C13"', f'"property": "{pid}"')
    open(f"{root}/prompts/{pid}.txt", "w").write(head + body + tail)
    print(pid, len(taken))
