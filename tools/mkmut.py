#!/usr/bin/env python3
"""usage: mkmut.py <mutants|neutral> <prop> <name> <file> <<< 'OLD\n=====\nNEW'   (multiple edits: separate blocks with a line '#####', each optionally starting with '@@ file')
Creates selftest/<kind>/<prop>/<name>.patch from exact-string replacements applied to a scratch copy."""
import sys, subprocess, os
kind, prop, name, file = sys.argv[1:5]
R = "/var/tmp/mk/r"
subprocess.check_call(["git", "-C", R, "checkout", "-q", "--", "."])
spec = sys.stdin.read()
for block in spec.split("\n#####\n"):
    f = file
    if block.startswith("@@ "):
        first, block = block.split("\n", 1)
        f = first[3:].strip()
    old, new = block.split("\n=====\n")
    old = old.strip("\n"); new = new.strip("\n")
    p = os.path.join(R, f)
    s = open(p).read()
    if s.count(old) != 1:
        sys.exit(f"old text occurs {s.count(old)} times in {f}")
    open(p, "w").write(s.replace(old, new))
d = subprocess.check_output(["git", "-C", R, "diff"]).decode()
out = f"/verif/selftest/{kind}/{prop}"
os.makedirs(out, exist_ok=True)
open(f"{out}/{name}.patch", "w").write(d)
subprocess.check_call(["git", "-C", R, "checkout", "-q", "--", "."])
print(f"wrote {out}/{name}.patch ({len(d.splitlines())} lines)")
