#!/bin/bash
# usage: tools/mutant.sh <patch.diff> <prop[,prop]> [tier]
# Applies a patch to a scratch copy of /repo (never /repo itself), checks that it still builds,
# runs the property's check on the copy, prints the verdict, removes the copy.
patch="$(readlink -f "$1")"; props="$2"; tier="${3:-quick}"
here="$(cd "$(dirname "$0")/.." && pwd)"
. "$here/bin/env.sh"
# A fixed slot directory per parallel job: the Go build cache keys packages by directory, so a fresh path per
# run would add ~0.4 GB of cache per run. The slot is emptied by rsync --delete and removed by the caller
# (tools/selftest.sh, tools/run_seeds.sh) or, for a stand-alone run, right here.
slot="${KVM_SLOT:-solo$$}"
scratch="${VERIF_SCRATCH:-/var/tmp}/kvm.slot.$slot"
# A build cache per slot, emptied by the slot itself when it passes 7 GB (a full build of the touched packages with their dependencies is about 5 GB; at 4 GB every patch rebuilt from cold): a shared cache grew to 80 GB in one corpus
# run, and cleaning a cache that another job is reading makes that job fail (DESIGN.md §10.17).
if [ -n "$KVM_SLOT" ]; then
  export GOCACHE="$scratch/gocache"
  if [ -d "$GOCACHE" ] && [ "$(du -sm "$GOCACHE" | cut -f1)" -gt "${SLOT_CACHE_MB:-7000}" ]; then rm -rf "$GOCACHE"; fi
fi
rm -rf "$scratch/verif"; mkdir -p "$scratch/repo" "$scratch/verif/evidence"
rsync -a --delete --exclude .git /repo/ "$scratch/repo/"
cp "$here/known_findings.json" "$scratch/verif/" 2>/dev/null
( cd "$scratch/repo" && patch -s -p1 < "$patch" ) || { echo "PATCH-FAILED $patch"; [ -z "$KVM_SLOT" ] && rm -rf "$scratch"; exit 3; }
if [ -n "$BUILD" ]; then
  pkgs=$(grep '^+++ ' "$patch" | sed 's|^+++ [ab]/||; s|/[^/]*$||' | sort -u | sed 's|^|./|')
  ( cd "$scratch/repo" && go build $pkgs ) || { echo "BUILD-FAILED $patch"; [ -z "$KVM_SLOT" ] && rm -rf "$scratch"; exit 3; }
fi
"$here/bin/kaicheck" -repo "$scratch/repo" -verif "$scratch/verif" -p "$props" -tier "$tier" > "$scratch/out.txt" 2>&1
code=$?
grep -E "VIOLATION|UNDECIDED|KNOWN-FINDING|^[a-z].*: \[C" "$scratch/out.txt" | sed "s|$scratch/repo/||g" | cut -c1-${WIDTH:-300}
echo "RESULT $(basename "$patch") props=$props exit=$code"
if [ -z "$KVM_SLOT" ]; then rm -rf "$scratch"; else rm -rf "$scratch/verif" "$scratch/out.txt"; fi
exit $code
