#!/bin/bash
# usage: tools/mutant.sh <patch.diff> <prop[,prop]> [tier]
# Applies a patch to a scratch copy of /repo (never /repo itself), checks that it still builds,
# runs the property's check on the copy, prints the verdict, removes the copy.
patch="$(readlink -f "$1")"; props="$2"; tier="${3:-quick}"
here="$(cd "$(dirname "$0")/.." && pwd)"
. "$here/bin/env.sh"
scratch="${VERIF_SCRATCH:-/var/tmp}/kvm.$$"
mkdir -p "$scratch/repo" "$scratch/verif/evidence"
rsync -a --exclude .git /repo/ "$scratch/repo/"
cp "$here/known_findings.json" "$scratch/verif/" 2>/dev/null
( cd "$scratch/repo" && patch -s -p1 < "$patch" ) || { echo "PATCH-FAILED $patch"; rm -rf "$scratch"; exit 3; }
if [ -n "$BUILD" ]; then
  pkgs=$(grep '^+++ ' "$patch" | sed 's|^+++ [ab]/||; s|/[^/]*$||' | sort -u | sed 's|^|./|')
  ( cd "$scratch/repo" && go build $pkgs ) || { echo "BUILD-FAILED $patch"; rm -rf "$scratch"; exit 3; }
fi
"$here/bin/kaicheck" -repo "$scratch/repo" -verif "$scratch/verif" -p "$props" -tier "$tier" > "$scratch/out.txt" 2>&1
code=$?
grep -E "VIOLATION|UNDECIDED|KNOWN-FINDING|^[a-z].*: \[C" "$scratch/out.txt" | sed "s|$scratch/repo/||g" | cut -c1-${WIDTH:-300}
echo "RESULT $(basename "$patch") props=$props exit=$code"
rm -rf "$scratch"
exit $code
