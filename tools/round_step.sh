#!/bin/bash
# usage: tools/round_step.sh <round-root> Cxx [...] — confirms the seeds of the given properties (background, log in
# <round-root>/confirm.<prop>.log) and runs them through all checks.
root="$1"; shift
here="$(cd "$(dirname "$0")/.." && pwd)"; cd "$here"
for p in "$@"; do
  ( for m in "$root/$p-out"/mut?; do python3 tools/confirm_seed.py "$m"; done > "$root/confirm.$p.log" 2>&1 & )
done
VERIF_SCRATCH=${VERIF_SCRATCH:-/var/tmp/s2} JOBS=${JOBS:-4} tools/run_round.sh "$root" "$@"
for p in "$@"; do for m in mutA mutB; do echo "=== $p $m"; grep -v "^index\|^diff" "$root/$p-out/$m/patch.diff" | head -${LINES_MAX:-60}; done; done
