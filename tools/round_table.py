#!/usr/bin/env python3
"""usage: round_table.py <letters> <run_seeds log> [first-verdicts.json] — prints the markdown catch table of one
seeding round (DESIGN.md §10.x) from seeded/*/meta.json and the output of tools/run_seeds.sh."""
import json, sys, glob, os, re
letters, log = sys.argv[1], sys.argv[2]
first = json.load(open(sys.argv[3])) if len(sys.argv) > 3 else {}
res = {}
for l in open(log):
    m = re.match(r"(C\d\d-\w) (caught|MISSED) own=\[(.*?)\s*\] all=\[(.*?)\s*\]", l)
    if m:
        res[m.group(1)] = (m.group(2), m.group(3).replace("[", "").replace("]", ""), m.group(4))
print("| id | file | change (from the author's summary) | own obligation | first verdict |")
print("|---|---|---|---|---|")
for d in sorted(glob.glob("/verif/seeded/C*-[%s]" % letters)):
    sid = os.path.basename(d)
    meta = json.load(open(d + "/meta.json"))
    files = meta.get("files_changed") or []
    s = (meta.get("summary") or "").replace("\n", " ").replace("|", "/")
    s = s[:230] + ("…" if len(s) > 230 else "")
    v = res.get(sid, ("?", "", ""))
    f = first.get(sid)
    if f is None:
        fv = ""
    elif f[0] == "caught":
        fv = "caught"
    else:
        fv = "missed at first" + (f" ({f[1].strip().replace(' ', '/')} caught it)" if f[1].strip() else "")
    print(f"| {sid} | `{os.path.basename(files[0]) if files else ''}` | {s} | {v[1] if v[0]=='caught' else 'MISSED'} | {fv} |")
