#!/bin/bash
# usage: tools/run_neutral_round.sh <round-root> [Cxx ...] — runs every <round-root>/Cxx-out/neutral*/patch.diff through ALL
# checks on a scratch copy; a behaviour-preserving refactoring must leave every check silent (exit 0). Patches that do not
# apply or do not build are reported as such (they say nothing about the checks).
here="$(cd "$(dirname "$0")/.." && pwd)"; cd "$here"; bin/build.sh >/dev/null || exit 2
root="$1"; shift; props="$*"; [ -z "$props" ] && props=$(ls "$root" | grep -- '-out$' | sed 's/-out//')
one() {
  f="$1"; prop=$(echo "$f" | sed 's|.*/\(C[0-9]*\)-out/.*|\1|'); name=$(basename $(dirname "$f"))
  out=$(WIDTH=500 tools/mutant.sh "$f" all 2>&1); code=$?
  hit=$(echo "$out" | grep -o "VIOLATION property=C[0-9]*" | sed 's/VIOLATION property=//' | sort -u | tr '\n' ' ')
  if [ "$code" = 0 ]; then echo "$prop $name silent"; else echo "$prop $name ALARM exit=$code [$hit]"; echo "$out" | grep -E "^pkg|^cmd|^[a-z(].*\[C|UNDECIDED|PATCH-FAILED" | head -4 | sed 's/^/      /'; fi
}
export -f one
for p in $props; do ls "$root/$p-out"/neutral*/patch.diff 2>/dev/null; done | xargs --process-slot-var=KVM_SLOT -P ${JOBS:-6} -I{} bash -c 'one {}' | sort
rm -rf "${VERIF_SCRATCH:-/var/tmp}"/kvm.slot.*
