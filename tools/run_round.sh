#!/bin/bash
# usage: tools/run_round.sh <round-root> [Cxx ...] — runs every <round-root>/Cxx-out/mut*/patch.diff through ALL checks on a
# scratch copy and prints which properties report it (used before a seeded change is imported into /verif/seeded).
here="$(cd "$(dirname "$0")/.." && pwd)"; cd "$here"; bin/build.sh >/dev/null || exit 2
root="$1"; shift; props="$*"; [ -z "$props" ] && props=$(ls "$root" | grep -- '-out$' | sed 's/-out//')
one() {
  f="$1"; own=$(echo "$f" | sed 's|.*/\(C[0-9]*\)-out/.*|\1|'); name=$(basename $(dirname "$f"))
  out=$(WIDTH=400 tools/mutant.sh "$f" all 2>&1)
  hit=$(echo "$out" | grep -o "VIOLATION property=C[0-9]*" | sed 's/VIOLATION property=//' | sort -u | tr '\n' ' ')
  und=$(echo "$out" | grep -c "^UNDECIDED")
  obl=$(echo "$out" | grep -o "\[$own-O[0-9]* [A-Z]*\]" | sort -u | tr '\n' ' ')
  if echo " $hit" | grep -q " $own "; then v=caught; else v=MISSED; fi
  echo "$own $name $v own=[$obl] all=[$hit] undecided=$und"
  [ "$und" != 0 ] && echo "$out" | grep "^UNDECIDED" | head -3 | sed 's/^/      /'
}
export -f one
for p in $props; do ls "$root/$p-out"/*mut*/patch.diff 2>/dev/null; done | xargs --process-slot-var=KVM_SLOT -P ${JOBS:-4} -I{} bash -c 'one {}' | sort
rm -rf "${VERIF_SCRATCH:-/var/tmp}"/kvm.slot.*
