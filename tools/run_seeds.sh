#!/bin/bash
# usage: tools/run_seeds.sh [seed-id ...] — applies each /verif/seeded/<id>/patch.diff to a scratch copy of /repo
# (never /repo itself), runs ALL claimed checks on the copy and prints which properties report a violation.
here="$(cd "$(dirname "$0")/.." && pwd)"; cd "$here"; bin/build.sh >/dev/null || exit 2
ids="$*"; [ -z "$ids" ] && ids=$(ls seeded)
one() {
  id="$1"; own="${id%%-*}"
  out=$(WIDTH=400 tools/mutant.sh "seeded/$id/patch.diff" all 2>&1)
  hit=$(echo "$out" | grep -o "VIOLATION property=C[0-9]*" | sed 's/VIOLATION property=//' | sort -u | tr '\n' ' ')
  und=$(echo "$out" | grep -c "^UNDECIDED")
  obl=$(echo "$out" | grep -o "\[$own-O[0-9]* [A-Z]*\]" | sort -u | tr '\n' ' ')
  if echo " $hit" | grep -q " $own "; then v=caught; else v=MISSED; fi
  echo "$id $v own=[$obl] all=[$hit] undecided=$und"
}
export -f one
echo $ids | tr ' ' '\n' | xargs --process-slot-var=KVM_SLOT -P ${JOBS:-6} -I{} bash -c 'one {}' | sort
rm -rf "${VERIF_SCRATCH:-/var/tmp}"/kvm.slot.*
