#!/bin/bash
# usage: tools/run_seeds2.sh <out-root> [prop ...] — like run_seeds.sh for not-yet-imported seeds under <out-root>/<prop>-out/mut*/
here="$(cd "$(dirname "$0")/.." && pwd)"; cd "$here"; bin/build.sh >/dev/null || exit 2
root="$1"; shift; props="$*"; [ -z "$props" ] && props=$(ls "$root" | grep -- '-out$' | grep -v 'n-out' | sed 's/-out//')
one() {
  f="$1"; own=$(echo "$f" | sed 's|.*/\(C[0-9]*\)-out/.*|\1|'); name=$(basename $(dirname "$f"))
  out=$(WIDTH=400 tools/mutant.sh "$f" all 2>&1)
  hit=$(echo "$out" | grep -o "VIOLATION property=C[0-9]*" | sed 's/VIOLATION property=//' | sort -u | tr '\n' ' ')
  obl=$(echo "$out" | grep -o "\[$own-O[0-9]* [A-Z]*\]" | sort -u | tr '\n' ' ')
  und=$(echo "$out" | grep -c "^UNDECIDED\|PATCH-FAILED")
  if echo " $hit" | grep -q " $own "; then v=caught; else v=MISSED; fi
  echo "$own $name $v own=[$obl] all=[$hit] undecided=$und"
}
export -f one
for p in $props; do ls "$root/${p}-out"/mut*/patch.diff 2>/dev/null; done | xargs --process-slot-var=KVM_SLOT -P ${JOBS:-6} -I{} bash -c 'one {}' | sort
rm -rf "${VERIF_SCRATCH:-/var/tmp}"/kvm.slot.*
