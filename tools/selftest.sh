#!/bin/bash
# usage: tools/selftest.sh [Cxx ...]   — runs the mutant corpus (must be reported: exit 1) and the
# neutral corpus (must stay silent: exit 0) for the given properties (default: all) on scratch copies.
here="$(cd "$(dirname "$0")/.." && pwd)"
cd "$here"; bin/build.sh >/dev/null || exit 2
props="$*"; [ -z "$props" ] && props=$(ls selftest/mutants selftest/neutral 2>/dev/null | grep '^C' | sort -u)
fail=0
run() { # kind prop patch expected
  out=$(tools/mutant.sh "$3" "$2" 2>&1); code=$?
  if [ "$code" = "$4" ]; then echo "ok   $1 $2 $(basename $3) exit=$code"; else echo "BAD  $1 $2 $(basename $3) exit=$code (expected $4)"; echo "$out" | tail -5 | sed 's/^/      /'; return 1; fi
}
export -f run
for p in $props; do
  for m in selftest/mutants/$p/*.patch; do [ -f "$m" ] && echo "mutant $p $m 1"; done
  for m in selftest/neutral/$p/*.patch; do [ -f "$m" ] && echo "neutral $p $m 0"; done
done | xargs --process-slot-var=KVM_SLOT -P ${JOBS:-8} -L1 bash -c 'run "$0" "$1" "$2" "$3"' | sort | tee /tmp/selftest.$$.log
bad=$(grep -c '^BAD' /tmp/selftest.$$.log); tot=$(grep -c '^ok\|^BAD' /tmp/selftest.$$.log); rm -f /tmp/selftest.$$.log
rm -rf "${VERIF_SCRATCH:-/var/tmp}"/kvm.slot.*
echo "selftest: $tot patches, $bad unexpected"
[ "$bad" = 0 ]
